"""Generic native replay driver (runs under /venv/bin/python, no z3).

usage: driver.py <replay-file.json>   -> prints one JSON line {"reproduced": bool, ...}
The replay file names the failed obligation and carries the solver's counter-model; the
replayer registered for the function turns it into concrete public-API inputs (model
guided, bounded search) and evaluates the *observable* clause natively on the real code.
"""
import json
import sys
import os
import traceback

sys.path.insert(0, os.path.dirname(os.path.abspath(__file__)))


def main():
    rec = json.load(open(sys.argv[1]))
    import replayers
    fn = replayers.find(rec)
    if fn is None:
        print(json.dumps({"reproduced": False, "note": "no replayer for %s" % rec.get("function")}))
        return
    try:
        res = fn(rec)
    except Exception as e:
        res = {"reproduced": False, "note": "replayer crashed: %s" % e, "trace": traceback.format_exc()[-600:]}
    print(json.dumps(res, default=str))


if __name__ == "__main__":
    main()
