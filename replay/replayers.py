"""Replayers: obligation record -> native reproduction attempt on the real code."""
import itertools
import math
import random
import re
from fractions import Fraction

REGISTRY = []
import os as _os
DEPTH = 5 if _os.environ.get("PYVC_TIER") == "thorough" else 1      # thorough tier: 5x the generated programs / seeds


def replayer(pattern):
    def deco(fn):
        REGISTRY.append((re.compile(pattern), fn))
        return fn
    return deco


def find(rec):
    q = rec.get("function") or ""
    for pat, fn in REGISTRY:
        if pat.fullmatch(q):
            return fn
    return None


# ------------------------------------------------------------------ model helpers
def mval(rec, key, default=None):
    m = rec.get("solver_model") or {}
    return m.get("@" + key, default)


def parse_num(s, default=None):
    """'3', '-1/2', 'fin(1/2)', 'O_float(fin(0))', 'O_int(3)', 'nan' -> python number"""
    if s is None:
        return default
    s = s.strip()
    m = re.fullmatch(r"O_float\((.*)\)", s)
    if m:
        v = parse_num(m.group(1))
        return float(v) if v is not None else default
    m = re.fullmatch(r"O_int\((.*)\)", s)
    if m:
        return int(parse_num(m.group(1)))
    m = re.fullmatch(r"O_bool\((.*)\)", s)
    if m:
        return m.group(1) == "True"
    m = re.fullmatch(r"fin\((.*)\)", s)
    if m:
        return parse_num(m.group(1))
    if s == "nan":
        return math.nan
    if s == "pinf":
        return math.inf
    if s == "ninf":
        return -math.inf
    if s in ("True", "False"):
        return s == "True"
    s = s.replace("(", "").replace(")", "").replace(" ", "")
    s = s.rstrip("?")
    try:
        if "/" in s:
            return float(Fraction(s))
        if "." in s:
            return float(s)
        return int(s)
    except Exception:
        return default


def exc_class_of(rec):
    """Exception class named by a noexc./raises. obligation."""
    m = re.match(r"(?:noexc|raises|excframe)\.([A-Za-z]+)", rec.get("obligation", ""))
    return m.group(1) if m else None


def exc_matches(e, name):
    return any(c.__name__ == name for c in type(e).__mro__)


# ------------------------------------------------------------------ C09 / C10 statistics
def candidate_sequences(n, rng, extra=()):
    n = max(0, min(int(n), 12))
    seqs = []
    for c in (0.0, 1.5, -2.0) + tuple(extra):
        seqs.append([c] * n)
    seqs.append([float(i) for i in range(n)])
    for _ in range(20):
        seqs.append([rng.choice([0.0, 1.0, 2.5, -1.0]) for _ in range(n)])
    for _ in range(10):
        seqs.append([rng.uniform(-5, 5) for _ in range(n)])
    return seqs


def tally_totality_sweep():
    """BOUNDED: every query of Tally/Counter on histories of length 0..6 (equal values, extreme magnitudes) with every
    argument incl. rounding-sensitive confidence levels: returns (value or NaN), never raises."""
    from pydsol.core.statistics import Tally, Counter, EventBasedTally
    rng = random.Random(11)
    alphas = [0.0, 5e-324, 1e-300, 1e-17, 2.0 ** -53, 2.0 ** -52, 1e-10, 0.05, 0.5, 0.95, 1.0 - 2.0 ** -53, 1.0]
    for cls in (Tally, EventBasedTally):
        for k in range(0, 7):
            for seq in candidate_sequences(k, rng):
                t = cls("sweep")
                for x in seq:
                    t.register(x)
                calls = [("n", ()), ("sum", ()), ("min", ()), ("max", ()), ("mean", ())]
                for m in ("variance", "stdev", "skewness", "kurtosis", "excess_kurtosis"):
                    calls += [(m, ()), (m, (True,)), (m, (False,))]
                calls += [("confidence_interval", (a,)) for a in alphas]
                for m, args in calls:
                    try:
                        r = getattr(t, m)(*args)
                    except Exception as e:
                        return {"class": cls.__name__, "observations": seq, "call": m, "args": list(args),
                                "failure": "%s(%s) raised %s: %s" % (m, ", ".join(map(repr, args)), type(e).__name__, e)}
                    vals = r if isinstance(r, tuple) else (r,)
                    if not all(isinstance(v, (int, float)) for v in vals):
                        return {"class": cls.__name__, "observations": seq, "call": m, "args": list(args),
                                "failure": "%s returned %r (not a number / NaN)" % (m, r)}
    c = Counter("sweep")
    for x in (0, -3, 10 ** 30, True):
        c.register(x)
    if (c.n(), c.count()) != (4, 10 ** 30 - 2):
        return {"class": "Counter", "failure": "counter reports %r" % ((c.n(), c.count()),)}
    return None


@replayer(r"(Tally|EventBasedTally|SimTally)\.(skewness|kurtosis|excess_kurtosis|variance|stdev|mean|confidence_interval|min|max|sum|n)")
def replay_tally_getter(rec):
    if rec.get("obligation") == "bounded-sweep":
        f = tally_totality_sweep()
        return {"reproduced": bool(f), "input": f, "observed": f["failure"] if f else None,
                "note": "all queries total on the swept histories"}
    from pydsol.core.statistics import Tally
    rng = random.Random(1)
    meth = rec["function"].split(".")[1]
    want = exc_class_of(rec)
    n = parse_num(mval(rec, "self._n"), 3)
    args = []
    if meth == "confidence_interval":
        args = [parse_num(mval(rec, "arg:alpha"), 0.05)]
    elif meth in ("skewness", "kurtosis", "excess_kurtosis", "variance", "stdev"):
        args = [bool(parse_num(mval(rec, "arg:biased"), True))]
    ns = [n] + [k for k in range(0, 7) if k != n]
    for k in ns:
        for seq in candidate_sequences(k, rng):
            t = Tally("replay")
            for x in seq:
                t.register(x)
            try:
                r = getattr(t, meth)(*args)
            except Exception as e:
                if want is None or exc_matches(e, want):
                    return {"reproduced": True, "input": {"observations": seq, "call": meth, "args": args},
                            "observed": "%s: %s" % (type(e).__name__, e)}
                continue
            if want is None:
                # a value obligation: compare every query with the textbook definition (exact rational reference)
                try:
                    mm = tally_mismatch(t, seq)
                except Exception as e:
                    mm = ("query", "%s: %s" % (type(e).__name__, e), "a value or NaN")
                if mm:
                    return {"reproduced": True, "input": {"observations": seq, "query": mm[0]},
                            "observed": "%s reports %r after the observations %s; the documented definition gives %r" % (mm[0], mm[1], seq, mm[2])}
    return {"reproduced": False, "note": "no failing observation sequence found (n<=6 candidates)"}


def tally_reference(seq):
    """Textbook statistics of a finite sequence in exact rational arithmetic (floats where
    roots are needed).  None = undefined."""
    from fractions import Fraction as F
    n = len(seq)
    xs = [F(x) for x in seq]
    ref = {"n": n, "sum": sum(xs, F(0)) if n else F(0),
           "min": min(xs) if n else None, "max": max(xs) if n else None}
    if n == 0:
        ref.update(mean=None, var_b=None, var_u=None, skew_b=None, skew_u=None, kurt_b=None, kurt_u=None,
                   exk_b=None, exk_u=None)
        return ref
    mu = ref["sum"] / n
    m2 = sum((x - mu) ** 2 for x in xs)
    m3 = sum((x - mu) ** 3 for x in xs)
    m4 = sum((x - mu) ** 4 for x in xs)
    ref["mean"] = mu
    ref["var_b"] = m2 / n
    ref["var_u"] = m2 / (n - 1) if n > 1 else None
    vb = float(m2 / n)
    ref["skew_b"] = (float(m3 / n) / vb ** 1.5) if (n > 1 and m2 > 0) else None
    ref["skew_u"] = (ref["skew_b"] * math.sqrt(n * (n - 1)) / (n - 2)) if (n > 2 and m2 > 0) else None
    ref["kurt_b"] = (float(m4 / n) / vb / vb) if (n > 2 and m2 > 0) else None
    vu = float(m2 / (n - 1)) if n > 1 else None
    ref["kurt_u"] = (float(m4 / (n - 1)) / vu / vu) if (n > 3 and m2 > 0) else None
    ref["exk_b"] = ref["kurt_b"] - 3.0 if ref["kurt_b"] is not None else None
    ref["exk_u"] = ((n - 1) / (n - 2) / (n - 3)) * ((n + 1) * ref["exk_b"] + 6) if (n > 3 and m2 > 0) else None
    return ref


def close(a, ref, tol=1e-7):
    if ref is None:
        return isinstance(a, float) and math.isnan(a)
    if isinstance(a, float) and math.isnan(a):
        return False
    r = float(ref)
    return abs(a - r) <= tol * max(1.0, abs(r))


def tally_mismatch(t, seq):
    ref = tally_reference(seq)
    got = {"n": t.n(), "sum": t.sum(), "min": t.min(), "max": t.max(), "mean": t.mean(),
           "var_b": t.variance(), "var_u": t.variance(False), "skew_b": t.skewness(),
           "skew_u": t.skewness(False), "kurt_b": t.kurtosis(), "kurt_u": t.kurtosis(False),
           "exk_b": t.excess_kurtosis(), "exk_u": t.excess_kurtosis(False)}
    for k in got:
        if k == "n":
            if got[k] != ref[k]:
                return k, got[k], ref[k]
        elif not close(got[k], ref[k]):
            return k, got[k], (float(ref[k]) if ref[k] is not None else None)
    return None


@replayer(r"(Tally|EventBasedTally|SimTally)\.(register|initialize|__init__)")
def replay_tally_register(rec):
    """A refuted invariant/postcondition of register/initialize: search (model guided by n,
    bounded) for a history whose getters disagree with the exact reference, or that raises
    an exception the contract does not admit."""
    from pydsol.core.statistics import Tally
    rng = random.Random(2)
    n = parse_num(mval(rec, "self._n"), 2) or 0
    want = exc_class_of(rec)
    ns = [min(int(n) + 1, 8)] + [k for k in range(1, 8)]
    for k in ns:
        for seq in candidate_sequences(k, rng):
            for reinit in (False, True):
                t = Tally("replay")
                try:
                    if reinit:
                        t.register(42.0)
                        t.register(-7.0)
                        t.initialize()
                    for x in seq:
                        t.register(x)
                    mm = tally_mismatch(t, seq)
                except Exception as e:
                    if want is None or exc_matches(e, want):
                        return {"reproduced": True, "input": {"observations": seq, "reinitialised_before": reinit},
                                "observed": "%s: %s" % (type(e).__name__, e)}
                    continue
                if mm is not None and want is None:
                    return {"reproduced": True, "input": {"observations": seq, "reinitialised_before": reinit},
                            "observed": "getter %s returned %r, exact reference %r" % mm}
    # a rejected observation changes no reported value -- also on an empty or freshly initialised tally
    for prefix in ([], [3.0], [3.0, -1.5]):
        for reinit in (False, True):
            for bad in (None, "x", float("nan"), [1.0]):
                t = Tally("replay")
                for x in prefix:
                    t.register(x)
                if reinit:
                    t.initialize()
                snap = lambda: [repr(g()) for g in (t.n, t.sum, t.min, t.max, t.mean, t.variance, t.stdev)]
                before = snap()
                try:
                    t.register(bad)
                    continue
                except (TypeError, ValueError):
                    pass
                if snap() != before:
                    return {"reproduced": True, "input": {"observations": prefix, "initialize_before": reinit, "rejected": repr(bad)},
                            "observed": "after the rejected register(%r) the getters (n, sum, min, max, mean, variance, stdev) changed from %s to %s"
                                        % (bad, before, snap())}
    return {"reproduced": False, "note": "no failing history found (n<=7 candidate sequences)"}


# ------------------------------------------------------------------ C08 publish/subscribe
def pubsub_search(seed_base=0, rounds=400, max_ops=14):
    """Bounded random exploration of subscribe / unsubscribe / fire histories with re-entrant
    listeners against a reference subscription model.  Returns a failing history or None."""
    from pydsol.core.pubsub import EventProducer, EventListener, EventType, Event, TimedEvent, EventError

    types = getattr(pubsub_search, "_types", None)
    if types is None:
        types = [EventType("RT%d" % i) for i in range(3)]
        pubsub_search._types = types

    class L(EventListener):
        def __init__(self, name, world):
            self.name, self.world, self.script = name, world, []

        def notify(self, event):
            w = self.world
            w["log"].append((self.name, types.index(event.event_type), event.content,
                             getattr(event, "timestamp", None)))
            if self.script and w["depth"] < 2:
                act = self.script.pop(0)
                w["depth"] += 1
                try:
                    w["apply"](act)
                finally:
                    w["depth"] -= 1

    for r in range(rounds):
        rng = random.Random(seed_base * 100003 + r)
        prod = EventProducer()
        ref = {}                      # type index -> [listener names]
        world = {"log": [], "depth": 0}
        ls = [L("l%d" % i, world) for i in range(3)]
        ref_log = []
        history = []

        def ref_fire(t, content, ts, scripts_view):
            # reference semantics: deliver to the snapshot, in order; nested actions of the
            # listeners are performed by the real listeners (they call apply), so the reference
            # only mirrors the state changes through apply as well
            pass

        def apply(act):
            kind = act[0]
            if kind == "add":
                _, t, l = act
                prod.add_listener(types[t], ls[l])
                lst = ref.setdefault(t, [])
                if "l%d" % l not in lst:
                    lst.append("l%d" % l)
            elif kind == "rem":
                _, t, l = act
                prod.remove_listener(types[t], ls[l])
                if t in ref and "l%d" % l in ref[t]:
                    ref[t].remove("l%d" % l)
                    if not ref[t]:
                        del ref[t]
            elif kind == "remall":
                _, t, l = act
                prod.remove_all_listeners(None if t is None else types[t], None if l is None else ls[l])
                if t is None and l is None:
                    ref.clear()
                elif t is None:
                    for k in list(ref):
                        if "l%d" % l in ref[k]:
                            ref[k].remove("l%d" % l)
                            if not ref[k]:
                                del ref[k]
                elif l is None:
                    ref.pop(t, None)
                else:
                    if t in ref and "l%d" % l in ref[t]:
                        ref[t].remove("l%d" % l)
                        if not ref[t]:
                            del ref[t]
            elif kind in ("fire", "firet"):
                _, t, content, ts = act
                snapshot = list(ref.get(t, []))
                # expected deliveries of THIS firing: snapshot order; nested effects happen in between
                exp = [(n, t, content, ts if kind == "firet" else None) for n in snapshot]
                start = len(world["log"])
                marks = world.setdefault("marks", [])
                marks.append((start, exp, kind))
                if kind == "fire":
                    prod.fire(types[t], content)
                else:
                    prod.fire_timed(ts, types[t], content)
                # deliveries of this frame = entries logged at depth of this frame; we check the
                # subsequence condition: exp must be a subsequence of the new log entries and
                # every listener of the snapshot got exactly one entry from this frame
                new = world["log"][start:]
                mine = [e for e in new if e[1] == t and e[2] == content]
                names = [e[0] for e in mine]
                if world["depth"] == 0:
                    # top level: content values are unique per firing, so 'mine' is exactly this frame
                    if names != snapshot:
                        raise AssertionError(("delivery", act, snapshot, names))
                    if kind == "firet" and any(e[3] != ts for e in mine):
                        raise AssertionError(("timestamp", act, mine))
            if prod.has_listeners() != bool(ref):
                raise AssertionError(("has_listeners", act, dict(ref)))
        world["apply"] = apply
        counter = [0]

        def rand_act(nested=False):
            k = rng.random()
            t, l = rng.randrange(3), rng.randrange(3)
            if k < 0.35:
                return ("add", t, l)
            if k < 0.5:
                return ("rem", t, l)
            if k < 0.62:
                return ("remall", rng.choice([None, t]), rng.choice([None, l]))
            counter[0] += 1
            if k < 0.85:
                return ("fire", t, "c%d" % counter[0], None)
            return ("firet", t, "c%d" % counter[0], float(rng.randrange(100)))
        try:
            for _ in range(rng.randrange(3, max_ops)):
                for lst in ls:
                    if rng.random() < 0.5:
                        lst.script = [rand_act(True) for _ in range(rng.randrange(0, 3))]
                act = rand_act()
                history.append((act, [list(x.script) for x in ls]))
                apply(act)
        except AssertionError as e:
            return {"history": history, "failure": repr(e.args[0])}
        except EventError:
            pass
        except Exception as e:
            return {"history": history, "failure": "%s: %s" % (type(e).__name__, e)}
    return None


def event_metadata_search(rounds=3000):
    from pydsol.core.pubsub import EventType, Event, TimedEvent, EventError
    rng = random.Random(5)
    pool_types = [int, str, float, bool]
    vals = [1, "a", 2.5, True, None, [1]]
    n = [0]
    for r in range(rounds):
        keys = rng.sample(["a", "b", "c", "d"], rng.randrange(0, 4))
        md = {k: rng.choice(pool_types) for k in keys} if rng.random() < 0.85 else None
        n[0] += 1
        et = EventType("RM%d_%d" % (id(rng) % 1000, n[0]), md)
        ckeys = rng.sample(["a", "b", "c", "d", "e"], rng.randrange(0, 5))
        content = {k: rng.choice(vals) for k in ckeys} if rng.random() < 0.8 else rng.choice([1, "x", None, [1, 2]])
        check = rng.random() < 0.8
        ok = True
        if md is not None:
            if not isinstance(content, dict):
                ok = False
            elif check:
                ok = (set(content) == set(md) and len(content) == len(md)
                      and all(content[k] is not None and isinstance(content[k], md[k]) for k in md))
        ts = rng.choice([1.5, 3, "bad"])
        for mk, okts in ((lambda: Event(et, content, check), True),
                         (lambda: TimedEvent(ts, et, content, check), ts != "bad")):
            try:
                e = mk()
                created = True
            except EventError:
                created = False
            if created != (ok and okts):
                return {"metadata": None if md is None else {k: v.__name__ for k, v in md.items()},
                        "content": repr(content), "check": check, "timestamp": repr(ts),
                        "failure": "event created=%s, declared rule says %s" % (created, ok and okts)}
            if created and hasattr(e, "timestamp") and e.timestamp != ts:
                return {"failure": "timestamp not carried", "timestamp": repr(ts)}
    return None


@replayer(r"(EventProducer|Event|TimedEvent)\..*")
def replay_pubsub(rec):
    q = rec["function"]
    if q.startswith("Event.") or q.startswith("TimedEvent."):
        f = event_metadata_search()
        if f:
            return {"reproduced": True, "input": f, "observed": f["failure"]}
    for seed in range(3):
        f = pubsub_search(seed_base=seed)
        if f:
            return {"reproduced": True, "input": f, "observed": f["failure"]}
    f = event_metadata_search()
    if f:
        return {"reproduced": True, "input": f, "observed": f["failure"]}
    return {"reproduced": False, "note": "no failing subscribe/fire history found (1200 random histories with re-entrant listeners)"}


# ------------------------------------------------------------------ C01 event list
def eventlist_search(rounds=3000, seed=0, kinds=("int", "float")):
    """Random add/remove/pop/peek/contains/size/clear histories against a sorted-set reference;
    after every operation the drain order of a copy is compared as well."""
    from pydsol.core.eventlist import EventListHeap
    from pydsol.core.simevent import SimEvent

    class T:
        def m(self):
            pass
    tgt = T()
    for r in range(rounds):
        rng = random.Random(seed * 7919 + r)
        el = EventListHeap()
        ref = []          # list of events
        pool = []
        hist = []
        timekind = rng.choice(list(kinds))

        def key(e):
            return (e.time, -e.priority, e.id)
        nsteps = rng.randrange(2, 14) if r % 3 else rng.randrange(12, 40)
        for step in range(nsteps):
            try:
                if r % 3 == 0 and step < nsteps // 2:
                    op = rng.choice(["add", "add", "add", "add", "remove"])
                else:
                    op = rng.choice(["add", "add", "add", "remove", "remove", "pop", "peek", "contains", "clear1"])
                if op == "add":
                    if timekind == "int":
                        t = rng.randrange(0, 6)
                    elif timekind == "bigint":
                        t = 2 ** 53 + rng.randrange(0, 6)         # an int clock beyond the exactly representable floats
                    elif timekind == "duration":
                        from pydsol.core.units import Duration
                        t = Duration(rng.randrange(0, 6) * 0.5, rng.choice(["s", "min", "ms"]))
                    else:
                        t = float(rng.randrange(0, 6)) / 2
                    e = SimEvent(t, tgt, "m", rng.choice([1, 5, 5, 10]))
                    pool.append(e)
                    el.add(e)
                    ref.append(e)
                    hist.append(("add", t, e.priority))
                elif op == "remove" and pool:
                    e = rng.choice(pool)
                    got = el.remove(e)
                    exp = e in [x for x in ref if x is e]
                    hist.append(("remove", pool.index(e)))
                    if got != exp:
                        return {"history": hist, "failure": "remove returned %r, expected %r" % (got, exp)}
                    ref = [x for x in ref if x is not e]
                elif op == "pop":
                    got = el.pop_first()
                    hist.append(("pop",))
                    exp = min(ref, key=key) if ref else None
                    if got is not exp:
                        return {"history": hist, "failure": "pop_first returned %s, expected %s" % (got, exp)}
                    if exp is not None:
                        ref = [x for x in ref if x is not exp]
                elif op == "peek":
                    got = el.peek_first()
                    hist.append(("peek",))
                    exp = min(ref, key=key) if ref else None
                    if got is not exp:
                        return {"history": hist, "failure": "peek_first returned %s, expected %s" % (got, exp)}
                elif op == "contains" and pool:
                    e = rng.choice(pool)
                    hist.append(("contains", pool.index(e)))
                    if el.contains(e) != any(x is e for x in ref):
                        return {"history": hist, "failure": "contains wrong"}
                elif op == "clear1" and rng.random() < 0.15:
                    el.clear()
                    ref = []
                    hist.append(("clear",))
                if el.size() != len(ref) or el.is_empty() != (not ref):
                    return {"history": hist, "failure": "size/is_empty wrong: %d vs %d" % (el.size(), len(ref))}
                # drain a replayed copy
                import copy
                cp = copy.deepcopy(el)      # the whole object, whatever it keeps besides the heap array (public API only)
                drained = []
                while not cp.is_empty():
                    drained.append(cp.pop_first())
                if [key(e) for e in drained] != sorted(key(e) for e in ref):
                    return {"history": hist, "failure": "drain order %s differs from sorted order %s"
                            % ([key(e)[:2] for e in drained], sorted(key(e)[:2] for e in ref))}
            except Exception as e:
                # the list itself failed (not a wrong answer but an exception escaping from one of its operations)
                return {"history": hist, "failure": "an event-list operation raised %s: %s after the history shown" % (type(e).__name__, e)}
    return None


@replayer(r"EventListHeap\..*|SimEvent\.__(cmp|eq|ne|lt|le|gt|ge)__")
def replay_eventlist(rec):
    if rec.get("obligation") == "bounded-sweep-clocks":
        f = eventlist_search(rounds=900 * DEPTH, seed=3, kinds=("bigint", "duration", "int", "float"))
        return {"reproduced": bool(f), "input": f, "observed": f["failure"] if f else None,
                "note": "every history agrees with the sorted-set reference"}
    for seed in range(2):
        f = eventlist_search(seed=seed)
        if f:
            return {"reproduced": True, "input": f, "observed": f["failure"]}
    return {"reproduced": False, "note": "no failing event-list history found (6000 random histories)"}


# ------------------------------------------------------------------ C12 / C13 streams
def _child_seeds(code, hashseeds=("0", "1", "2")):
    import os
    import subprocess
    import sys
    outs = []
    for hs in hashseeds:
        env = dict(os.environ)
        env["PYTHONHASHSEED"] = hs
        p = subprocess.run([sys.executable, "-c", code], capture_output=True, text=True, env=env, timeout=60)
        outs.append((p.stdout.strip() or p.stderr.strip()[-200:]))
    return outs


@replayer(r"(SimpleStreamUpdater|StreamSeedUpdater|StreamUpdater)\..*")
def replay_updaters(rec):
    from pydsol.core.streams import MersenneTwister, SimpleStreamUpdater, StreamSeedUpdater
    ob = rec.get("obligation", "")
    # process-dependence: the same (name, original seed, replication) in interpreters with different
    # hash randomisation
    code = ("from pydsol.core.streams import MersenneTwister, SimpleStreamUpdater, StreamSeedUpdater\n"
            "out=[]\n"
            "for name, seed, r in (('default', 10, 3), ('arrivals', 7, 1), ('x', 0, 5)):\n"
            "    s = MersenneTwister(seed); SimpleStreamUpdater().update_seed(name, s, r); out.append((s.seed(), s.next_float()))\n"
            "    s = MersenneTwister(seed); StreamSeedUpdater({'other': [1, 2]}).update_seed(name, s, r) if True else None; out.append(s.seed())\n"
            "print(out)\n")
    code2 = ("from pydsol.core.streams import MersenneTwister, SimpleStreamUpdater\n"
             "out=[]\n"
             "for name, seed, r in (('default', 10, 3), ('arrivals', 7, 1), ('x', 0, 5)):\n"
             "    s = MersenneTwister(seed); SimpleStreamUpdater().update_seed(name, s, r); out.append((s.seed(), s.next_float()))\n"
             "print(out)\n")
    outs = _child_seeds(code2)
    if len(set(outs)) > 1:
        return {"reproduced": True, "input": {"streams": [["default", 10, 3], ["arrivals", 7, 1], ["x", 0, 5]],
                                              "PYTHONHASHSEED": ["0", "1", "2"]},
                "observed": "seeds/first draws differ between interpreter processes: %s" % outs}
    # unknown stream name with a seed table: must fall back, not raise
    try:
        s = MersenneTwister(10)
        StreamSeedUpdater({"other": [1, 2, 3]}).update_seed("default", s, 1)
    except Exception as e:
        return {"reproduced": True, "input": {"table": {"other": [1, 2, 3]}, "stream_id": "default", "replication_nr": 1},
                "observed": "%s: %s" % (type(e).__name__, e)}
    # table semantics / rejected replication numbers leave the stream alone
    rng = random.Random(3)
    for _ in range(300):
        table = {"a": [rng.randrange(100) for _ in range(rng.randrange(0, 4))], "b": [5, 6]}
        name = rng.choice(["a", "b", "c"])
        r = rng.choice([-1, 0, 1, 2, 3, 5, "x"])
        s = MersenneTwister(10)
        before = (s.seed(), s.save_state())
        try:
            StreamSeedUpdater(table).update_seed(name, s, r)
            if name in table:
                if not (isinstance(r, int) and 0 <= r < len(table[name])) or s.seed() != table[name][r]:
                    return {"reproduced": True, "input": {"table": table, "name": name, "r": r},
                            "observed": "seed %r after update" % s.seed()}
        except (TypeError, ValueError):
            if (s.seed(), s.save_state()) != before:
                return {"reproduced": True, "input": {"table": table, "name": name, "r": r},
                        "observed": "rejected update changed the stream"}
        except Exception as e:
            return {"reproduced": True, "input": {"table": table, "name": name, "r": r},
                    "observed": "%s: %s" % (type(e).__name__, e)}
    # history independence: the seed for replication r depends on the name, the ORIGINAL seed and r only -- not on earlier
    # updates, draws or re-seeding of the same stream object
    for upd in (SimpleStreamUpdater(), StreamSeedUpdater({"other": [1, 2]})):
        for name, seed in (("default", 10), ("arrivals", 7)):
            for r in (0, 1, 4):
                fresh = MersenneTwister(seed)
                upd.update_seed(name, fresh, r)
                want = (fresh.seed(), fresh.next_float())
                for prior in ([1], [0, 1, 2], [3, 0]):
                    used = MersenneTwister(seed)
                    for r0 in prior:
                        upd.update_seed(name, used, r0)
                        used.next_float()
                    upd.update_seed(name, used, r)
                    got = (used.seed(), used.next_float())
                    if got != want:
                        return {"reproduced": True, "input": {"updater": type(upd).__name__, "stream": name, "original_seed": seed,
                                                              "earlier_replications": prior, "replication_nr": r},
                                "observed": "seed/first draw %s after earlier updates, %s on a fresh stream" % (got, want)}
    return {"reproduced": False, "note": "seed updates agree across 3 interpreter processes; table semantics hold on 300 random cases; "
                                         "independent of earlier updates of the same stream"}


# ------------------------------------------------------------------ C18 input parameters
def parameters_search(rounds=1500, seed=0):
    from pydsol.core.parameters import (InputParameterInt, InputParameterFloat, InputParameterStr, InputParameterBool,
                                        InputParameterSelectionList, InputParameterMap)
    from pydsol.core.model import DSOLModel
    from pydsol.core.simulator import DEVSSimulatorFloat
    rng = random.Random(seed)
    cands = [0, 1, -3, 7, 50, 2.5, -0.5, 1e9, "a", "b", "zz", True, False, None, [1], float("nan"), float("inf"), float("-inf")]

    def mk(kind, key, ro, parent=None):
        if kind == "int":
            return InputParameterInt(key, key, 5, rng.choice([1, 2, 2, 3]), min_value=0, max_value=10, read_only=ro, parent=parent), \
                (lambda v: isinstance(v, int) and 0 <= v <= 10)
        if kind == "float":
            return InputParameterFloat(key, key, 1.5, rng.choice([1, 2, 2, 3]), min_value=-1.0, max_value=3.0, read_only=ro, parent=parent), \
                (lambda v: isinstance(v, (int, float)) and -1.0 <= v <= 3.0)
        if kind == "str":
            return InputParameterStr(key, key, "x", rng.choice([1, 2, 2, 3]), read_only=ro, parent=parent), (lambda v: isinstance(v, str))
        if kind == "bool":
            return InputParameterBool(key, key, True, rng.choice([1, 2, 2, 3]), read_only=ro, parent=parent), (lambda v: isinstance(v, bool))
        return InputParameterSelectionList(key, key, ["a", "b"], "a", rng.choice([1, 2, 2, 3]), read_only=ro, parent=parent), \
            (lambda v: isinstance(v, str) and v in ("a", "b"))

    class M(DSOLModel):
        def construct_model(self):
            pass
    sim = DEVSSimulatorFloat("replay")
    for r in range(rounds):
        kind = rng.choice(["int", "float", "str", "bool", "sel"])
        ro = rng.random() < 0.3
        p, valid = mk(kind, "p", ro)
        default = p.default_value
        cur = p.value
        hist = []
        for _ in range(rng.randrange(1, 6)):
            v = rng.choice(cands)
            hist.append(v)
            try:
                p.set_value(v)
                accepted = True
            except (TypeError, ValueError):
                accepted = False
            except Exception as e:
                return {"class": kind, "read_only": ro, "attempts": hist, "failure": "%s: %s" % (type(e).__name__, e)}
            exp = (not ro) and valid(v)
            if accepted != exp:
                return {"class": kind, "read_only": ro, "attempts": hist,
                        "failure": "set_value(%r) %s, declared rule says %s" % (v, "accepted" if accepted else "refused", "accept" if exp else "refuse")}
            if accepted:
                cur = v
            if p.value is not cur and p.value != cur:
                return {"class": kind, "read_only": ro, "attempts": hist, "failure": "value %r after attempt, expected %r" % (p.value, cur)}
            if p.default_value is not default and p.default_value != default:
                return {"class": kind, "attempts": hist, "failure": "default value changed"}
        # a constructor that raises leaves the parent map unchanged (no half-built child registered)
        if r % 5 == 0:
            from pydsol.core.parameters import InputParameterQuantity as _IPQ
            from pydsol.core.units import Length as _L
            pm = InputParameterMap("pm", "pm", 1.0)
            mk("int", "keep", False, parent=pm)
            bad_ctors = [lambda: InputParameterInt("k", "k", "abc", 1.0, parent=pm), lambda: InputParameterInt("k", "k", 50, 1.0, parent=pm, min_value=0, max_value=10),
                         lambda: InputParameterFloat("k", "k", 5.0, 1.0, parent=pm, min_value=10.0, max_value=20.0), lambda: InputParameterStr("k", "k", 3, 1.0, parent=pm),
                         lambda: InputParameterBool("k", "k", "x", 1.0, parent=pm), lambda: InputParameterSelectionList("k", "k", ["a"], "z", 1.0, parent=pm),
                         lambda: _IPQ("k", "k", _L(500.0), 1.0, parent=pm, min_si=1.0, max_si=100.0), lambda: InputParameterInt("keep", "dup", 3, 1.0, parent=pm)]
            bc = rng.choice(bad_ctors)
            before = list(pm.value.items())
            try:
                bc()
                return {"failure": "a constructor with an invalid default value / duplicate key was accepted"}
            except (TypeError, ValueError):
                pass
            if list(pm.value.items()) != before:
                return {"failure": "a constructor that raised left the parent map changed: keys %s (before: %s)"
                                   % (list(pm.value.keys()), [k for k, _ in before])}
        # quantity parameters: bounds are on the SI value, whatever unit the value is entered in
        if r % 4 == 0:
            from pydsol.core.parameters import InputParameterQuantity
            from pydsol.core.units import Length, Duration, Mass
            qcls, units, lo, hi = rng.choice([(Length, ["m", "cm", "km", "mm"], 1.0, 100.0), (Duration, ["s", "min", "ms", "h"], 10.0, 600.0)])
            ro = rng.random() < 0.2
            qp = InputParameterQuantity("q", "q", qcls(50.0, units[0]), 1.0, read_only=ro, min_si=lo, max_si=hi)
            cur = qp.value
            qhist = []
            for _ in range(rng.randrange(1, 6)):
                if rng.random() < 0.15:
                    v = rng.choice([Mass(50.0), 50.0, "50 m", None])
                else:
                    v = qcls(rng.choice([0.05, 0.5, 1.0, 5.0, 20.0, 50.0, 100.0, 300.0, 2000.0, float("nan"), float("inf")]), rng.choice(units))
                qhist.append(repr(v))
                try:
                    qp.set_value(v)
                    accepted = True
                except (TypeError, ValueError):
                    accepted = False
                except Exception as e:
                    return {"class": "quantity", "attempts": qhist, "failure": "%s: %s" % (type(e).__name__, e)}
                exp = (not ro) and isinstance(v, qcls) and lo <= v.si <= hi
                if accepted != exp:
                    return {"class": "quantity", "type": qcls.__name__, "bounds_si": [lo, hi], "read_only": ro, "attempts": qhist,
                            "failure": "set_value(%r) (SI value %r) %s; bounds %r..%r on the SI value say %s"
                                       % (v, getattr(v, "si", None), "accepted" if accepted else "refused", lo, hi, "accept" if exp else "refuse")}
                if accepted:
                    cur = v
                if qp.value is not cur:
                    return {"class": "quantity", "attempts": qhist, "failure": "value %r after the attempt, expected %r" % (qp.value, cur)}
        # model level: set through the model then get
        m = M(sim)
        kinds = [rng.choice(["int", "float", "str", "bool", "sel"]) for _ in range(rng.randrange(1, 5))]
        specs = {}
        order = []
        for i, k2 in enumerate(kinds):
            q, vq = mk(k2, "k%d" % i, False)
            m.add_parameter(q)
            specs["k%d" % i] = (q, vq)
            order.append((q.display_priority, i, "k%d" % i))
        listed = list(m.input_parameters.value.keys())
        if listed != [k for _, _, k in sorted(order)]:
            return {"failure": "children listed %s, expected priority order with ties in insertion order %s"
                    % (listed, [k for _, _, k in sorted(order)]), "priorities": order}
        try:
            m.add_parameter(mk("int", "k0", False)[0])
            return {"failure": "duplicate key k0 accepted"}
        except ValueError:
            pass
        for key, (q, vq) in specs.items():
            v = rng.choice(cands)
            if not vq(v):
                continue
            try:
                m.set_parameter(key, v)
                got = m.get_parameter(key)
            except Exception as e:
                return {"model_key": key, "value": repr(v), "failure": "set_parameter/get_parameter raised %s: %s" % (type(e).__name__, e)}
            if got is not v and got != v:
                return {"model_key": key, "value": repr(v), "failure": "get_parameter returned %r" % (got,)}
            if m.input_parameters.get(q.extended_key()[len("root."):]) is not q:
                return {"failure": "parameter not retrievable by its extended key %s" % q.extended_key()}
        # a three-level tree: every parameter retrievable and removable by its dotted key, also when the same
        # leaf key occurs on two levels
        root = InputParameterMap("root", "root", 1.0)
        a = InputParameterMap("a", "a", 1.0, parent=root)
        b = InputParameterMap("b", "b", 1.0, parent=a)
        leaf_b, _ = mk("int", "x", False, parent=b)
        leaf_a, _ = mk("int", "x", False, parent=a)
        leaf_b2, _ = mk("str", "y", False, parent=b)
        for path, obj in (("a.b.x", leaf_b), ("a.x", leaf_a), ("a.b.y", leaf_b2), ("a.b", b)):
            try:
                if root.get(path) is not obj:
                    return {"tree": "root{a{b{x,y},x}}", "failure": "get(%r) returned another parameter" % path}
            except Exception as e:
                return {"tree": "root{a{b{x,y},x}}", "failure": "get(%r) raised %s: %s" % (path, type(e).__name__, e)}
        # a nested map carrying its ancestor's key, and a later segment that ends in the first one
        g1 = InputParameterMap("gen", "gen", 2.0, parent=root)
        g2 = InputParameterMap("gen", "gen", 1.0, parent=g1)
        r_in, _ = mk("int", "rate", False, parent=g2)
        r_out, _ = mk("int", "rate", False, parent=g1)
        sg = InputParameterMap("subgen", "subgen", 3.0, parent=g1)
        cap, _ = mk("int", "cap", False, parent=sg)
        for path, obj in (("gen.gen.rate", r_in), ("gen.rate", r_out), ("gen.subgen.cap", cap), ("gen.gen", g2)):
            try:
                if root.get(path) is not obj:
                    return {"tree": "root{gen{gen{rate},rate,subgen{cap}}}", "failure": "get(%r) returned another parameter" % path}
            except Exception as e:
                return {"tree": "root{gen{gen{rate},rate,subgen{cap}}}", "failure": "get(%r) raised %s: %s" % (path, type(e).__name__, e)}
        try:
            got = root.remove("a.b.x")
        except Exception as e:
            return {"tree": "root{a{b{x,y},x}}", "failure": "remove('a.b.x') raised %s: %s" % (type(e).__name__, e)}
        if got is not leaf_b or "x" in b.value or "x" not in a.value:
            return {"tree": "root{a{b{x,y},x}}", "failure": "remove('a.b.x') removed/returned the wrong parameter"}
    return None


@replayer(r"(InputParameter\w*|DSOLModel)\.(set_value|__init__|add|get|remove|set_parameter|get_parameter|add_parameter)")
def replay_parameters(rec):
    for seed in range(2):
        f = parameters_search(seed=seed)
        if f:
            return {"reproduced": True, "input": f, "observed": f["failure"]}
    return {"reproduced": False, "note": "no failing parameter history found (3000 random histories)"}


# ------------------------------------------------------------------ C14 distributions
class ScriptedStream:
    """A StreamInterface that delivers a fixed list of uniforms (then repeats 0.5)."""

    def __init__(self, values):
        self.values = list(values)
        self.n = 0

    def _next(self):
        v = self.values[self.n] if self.n < len(self.values) else 0.5
        self.n += 1
        return v


def make_scripted(values):
    from pydsol.core.streams import StreamInterface

    class S(ScriptedStream, StreamInterface):
        def next_bool(self):
            return self._next() < 0.5

        def next_float(self):
            return self._next()

        def next_int(self, lo, hi):
            return lo + math.floor((hi - lo + 1) * self._next())

        def seed(self):
            return 0

        def original_seed(self):
            return 0

        def set_seed(self, seed):
            pass

        def reset(self):
            self.n = 0

        def save_state(self):
            return self.n

        def restore_state(self, state):
            self.n = state
    return S(values)


DIST_GRID = {
    "DistBernoulli": [(0.0,), (0.3,), (1.0,)], "DistBinomial": [(3, 0.0), (5, 0.4), (2, 1.0)],
    "DistDiscreteUniform": [(2, 2), (-3, 4)], "DistConstant": [(2.5,)], "DistExponential": [(0.5,), (3.0,)],
    "DistGamma": [(0.5, 2.0), (1.0, 1.0), (2.5, 0.5)], "DistErlang": [(2.0, 3), (0.5, 12)],
    "DistGeometric": [(0.0,), (0.3,), (0.999,)], "DistNegBinomial": [(2, 0.0), (3, 0.4)],
    "DistNormal": [(0.0, 1.0)], "DistLogNormal": [(0.0, 1.0)], "DistPearson5": [(0.5, 1.0), (2.0, 3.0)],
    "DistPearson6": [(0.5, 0.5, 1.0), (2.0, 3.0, 1.5)], "DistBeta": [(0.5, 0.5), (2.0, 3.0)], "DistPoisson": [(0.5,), (4.0,)],
    "DistTriangular": [(0.0, 0.0, 1.0), (0.0, 1.0, 1.0), (-1.0, 0.5, 2.0)], "DistUniform": [(1.0, 2.0)],
    "DistWeibull": [(0.5, 1.0), (2.0, 3.0)],
    "DistNormalTrunc": [(0.0, 1.0, -1.0, 2.0), (10.0, 1.0, 0.0, 20.0), (0.0, 1.0, -1.0, 10.0), (0.0, 2.0, -8.0, 0.5)],
}
SUPPORT = {
    "DistNormalTrunc": lambda p, r: p[2] <= r <= p[3],
    "DistBernoulli": lambda p, r: r in (0, 1), "DistBinomial": lambda p, r: isinstance(r, int) and 0 <= r <= p[0],
    "DistDiscreteUniform": lambda p, r: isinstance(r, int) and p[0] <= r <= p[1], "DistConstant": lambda p, r: r == p[0],
    "DistExponential": lambda p, r: r >= 0, "DistGamma": lambda p, r: r >= 0, "DistErlang": lambda p, r: r >= 0,
    "DistGeometric": lambda p, r: isinstance(r, int) and r >= 0, "DistNegBinomial": lambda p, r: isinstance(r, int) and r >= 0,
    "DistNormal": lambda p, r: isinstance(r, float), "DistLogNormal": lambda p, r: r > 0, "DistPearson5": lambda p, r: r >= 0,
    "DistPearson6": lambda p, r: r >= 0, "DistBeta": lambda p, r: 0 <= r <= 1, "DistPoisson": lambda p, r: isinstance(r, int) and r >= 0,
    "DistTriangular": lambda p, r: p[0] <= r <= p[2], "DistUniform": lambda p, r: p[0] <= r <= p[1], "DistWeibull": lambda p, r: r >= 0,
}
EXTREME = [0.0, 5e-324, 1e-300, 0.25, 0.5, 0.75, 1.0 - 2.0 ** -53]


def dist_search(cls_name, want_exc=None, skip=(), met=None):
    """``skip``: exception classes of draw() already accounted for (listed findings of the function): the search goes on past
    them and notes in ``met`` which ones it saw."""
    import pydsol.core.distributions as D
    cls = getattr(D, cls_name)
    rng = random.Random(11)
    scripts = [[u] * 6 for u in EXTREME] + [[a, b] * 4 for a in EXTREME for b in EXTREME]
    scripts += [[rng.choice(EXTREME) for _ in range(8)] for _ in range(60)]
    for params in DIST_GRID.get(cls_name, []):
        for script in scripts:
            st = make_scripted(script)
            try:
                d = cls(st, *params)
            except Exception as e:
                if want_exc is None or exc_matches(e, want_exc):
                    return {"class": cls_name, "parameters": params, "failure": "constructor raised %s: %s for parameters inside the documented domain" % (type(e).__name__, e)}
                break
            try:
                r = d.draw()
            except Exception as e:
                if any(exc_matches(e, k) for k in skip):
                    if met is not None:
                        met.update(k for k in skip if exc_matches(e, k))
                    continue
                if want_exc is None or exc_matches(e, want_exc):
                    return {"class": cls_name, "parameters": params, "uniforms": script[:st.n], "failure": "draw raised %s: %s" % (type(e).__name__, e)}
                continue
            if want_exc is None and not SUPPORT[cls_name](params, r):
                return {"class": cls_name, "parameters": params, "uniforms": script[:st.n], "failure": "draw returned %r outside the support" % (r,)}
            # re-pointing: after the stream setter the old stream is never consumed again
            if want_exc is None:
                used = st.n
                st2 = make_scripted([0.3, 0.6, 0.2, 0.7, 0.4, 0.5, 0.1, 0.9])
                d.stream = st2
                try:
                    d.draw()
                except Exception:
                    pass
                if st.n != used:
                    return {"class": cls_name, "parameters": params, "failure": "old stream consumed after the distribution was pointed at another stream"}
    return None


def quantity_ops_search():
    """Native oracle for the same-type operators, comparisons, scaling and re-expression of Quantity: results are functions of the
    SI values, keep the left operand's unit and class; other types are refused."""
    import pydsol.core.units as u
    vals = [0.0, -2.0, 1.5, 3, 1e-3, 7.25]
    for q in u.QUANTITIES:
        units = [k for k, f in q._units.items() if isinstance(f, (int, float))][:4]
        other_cls = u.QUANTITIES[(u.QUANTITIES.index(q) + 1) % len(u.QUANTITIES)]
        for un in units:
            for v in vals[:4]:
                x = q(v, un)
                if x.si != v * q._units[un] or x.unit != un or q(v).si != v * q._units[q._baseunit] or q(v).unit != q._baseunit:
                    return {"class": q.__name__, "value": v, "unit": un,
                            "failure": "construction gives si %r unit %r; value * factor is %r" % (x.si, x.unit, v * q._units[un])}
                for badargs in ((v, "no-such-unit"), ("12", un), (True, un)):
                    try:
                        q(*badargs)
                        return {"class": q.__name__, "failure": "construction %r was accepted" % (badargs,)}
                    except ValueError:
                        pass
                    except Exception as e:
                        return {"class": q.__name__, "failure": "construction %r raised %s" % (badargs, type(e).__name__)}
                for w in vals[1:5]:
                    y = q(w, units[-1])
                    checks = [("+", lambda: x + y, x.si + y.si), ("-", lambda: x - y, x.si - y.si), ("neg", lambda: -x, -x.si),
                              ("abs", lambda: abs(x), abs(x.si)), ("*2.5", lambda: x * 2.5, x.si * 2.5), ("/4", lambda: x / 4, x.si / 4)]
                    for name, f, exp in checks:
                        try:
                            r = f()
                        except Exception as e:
                            return {"class": q.__name__, "x": [v, un], "y": [w, units[-1]], "failure": "%s raised %s: %s" % (name, type(e).__name__, e)}
                        if r.si != exp or r.unit != un or type(r) is not q:
                            return {"class": q.__name__, "x": [v, un], "y": [w, units[-1]],
                                    "failure": "%s gives si %r unit %r class %s; expected si %r unit %r class %s"
                                               % (name, r.si, r.unit, type(r).__name__, exp, un, q.__name__)}
                    rels = [("==", x == y, x.si == y.si), ("!=", x != y, x.si != y.si), ("<", x < y, x.si < y.si), ("<=", x <= y, x.si <= y.si),
                            (">", x > y, x.si > y.si), (">=", x >= y, x.si >= y.si)]
                    for name, got, exp in rels:
                        if got != exp:
                            return {"class": q.__name__, "x": [v, un], "y": [w, units[-1]], "failure": "x %s y is %r, on SI values %r" % (name, got, exp)}
                for t in units:
                    z = x.as_unit(t)
                    if z.si != x.si or z.unit != t or type(z) is not q:
                        return {"class": q.__name__, "x": [v, un], "failure": "as_unit(%r) gives si %r unit %r" % (t, z.si, z.unit)}
                for tbl, opname, f, g in ((q._mul, "*", lambda a, b: a * b, lambda a, b: a * b), (q._div, "/", lambda a, b: a / b, lambda a, b: a / b)):
                    for oc, rc in list(tbl.items())[:6]:
                        yv = oc(2.5)
                        try:
                            r = f(x, yv)
                        except Exception as e:
                            return {"class": q.__name__, "other": oc.__name__, "failure": "%s raised %s: %s" % (opname, type(e).__name__, e)}
                        if type(r) is not rc or r.si != g(x.si, yv.si) or list(x.sisig()) != list(q.sisig()):
                            return {"class": q.__name__, "x": [v, un], "other": oc.__name__,
                                    "failure": "%s %s %s gives %s with si %r; the table prescribes %s with si %r"
                                               % (q.__name__, opname, oc.__name__, type(r).__name__, r.si, rc.__name__, g(x.si, yv.si))}
                o = other_cls(1.0)
                for name, f, exc in (("+", lambda: x + o, ValueError), ("-", lambda: x - o, ValueError), ("<", lambda: x < o, TypeError),
                                     (">=", lambda: x >= o, TypeError)):
                    try:
                        f()
                        return {"class": q.__name__, "other": other_cls.__name__, "failure": "%s with another quantity type was accepted" % name}
                    except exc:
                        pass
                    except Exception as e:
                        return {"class": q.__name__, "other": other_cls.__name__, "failure": "%s raised %s instead of %s" % (name, type(e).__name__, exc.__name__)}
                if x == o or not (x != o):
                    return {"class": q.__name__, "other": other_cls.__name__, "failure": "equal to a quantity of another type"}
    return None


def si_ops_search():
    """Native oracle for generic SI values: asSI carries the class signature; products / quotients of SI values and quantities have
    the product / quotient as value and the elementwise sum / difference as signature; as_quantity succeeds exactly on equal signatures."""
    import pydsol.core.units as u
    Q = u.QUANTITIES
    for i, a in enumerate(Q):
        x = a(5.0)          # 5 / 3: quotient and reciprocal round differently (a / b is not a * (1 / b))
        xs = x.asSI()
        if list(xs.sisig()) != list(a.sisig()) or float(xs) != x.si:
            return {"class": a.__name__, "failure": "asSI() gives signature %s value %r; the class has %s, value %r" % (list(xs.sisig()), float(xs), list(a.sisig()), x.si)}
        for b in Q[i % 3::3]:
            y = b(3.0)
            for name, f, sign, val in (("*", lambda p, q_: p * q_, 1, x.si * y.si), ("/", lambda p, q_: p / q_, -1, x.si / y.si)):
                want = [s1 + sign * s2 for s1, s2 in zip(a.sisig(), b.sisig())]
                for left, right in ((xs, y), (xs, y.asSI()), (x, y.asSI())):
                    try:
                        r = f(left, right)
                    except Exception as e:
                        return {"left": a.__name__, "right": b.__name__, "failure": "%s raised %s: %s" % (name, type(e).__name__, e)}
                    if list(r.sisig()) != want or float(r) != val:
                        return {"left": a.__name__, "right": b.__name__, "operands": [type(left).__name__, type(right).__name__],
                                "failure": "%s gives value %r signature %s; expected %r and %s" % (name, float(r), list(r.sisig()), val, want)}
            try:
                c = xs.as_quantity(b)
                ok = True
            except ValueError:
                ok = False
            except Exception as e:
                return {"si": a.__name__, "target": b.__name__, "failure": "as_quantity raised %s" % type(e).__name__}
            same = list(a.sisig()) == list(b.sisig())
            if ok != same or (ok and (type(c) is not b or c.si != x.si)):
                return {"si": a.__name__, "target": b.__name__,
                        "failure": "as_quantity(%s) of a value with the signature of %s %s; the signatures are %s"
                                   % (b.__name__, a.__name__, "succeeded" if ok else "was refused", "equal" if same else "different")}
    return None


@replayer(r"Quantity\..*|SI\..*")
def replay_quantity(rec):
    if rec.get("function", "").startswith("SI.") or rec.get("function", "").endswith(".asSI"):
        f = si_ops_search()
        if f:
            return {"reproduced": True, "input": f, "observed": f["failure"]}
    f = quantity_ops_search()
    if f:
        return {"reproduced": True, "input": f, "observed": f["failure"]}
    return {"reproduced": False, "note": "operators agree with the SI values on 41 classes x 4 units x 16 value pairs"}


def nan_parameter_probe():
    """Known-finding witness: a NaN parameter is outside every documented domain; which constructors accept it?"""
    import pydsol.core.distributions as D
    from pydsol.core.streams import MersenneTwister
    nan = float("nan")
    accepted = []
    for name, grid in sorted(DIST_GRID.items()):
        cls = getattr(D, name)
        base = list(grid[-1])
        for i, v in enumerate(base):
            if isinstance(v, int) and not isinstance(v, bool) and name in ("DistBinomial", "DistDiscreteUniform", "DistErlang", "DistNegBinomial") \
                    and isinstance(base[i], int):
                continue        # integer parameters cannot be NaN
            if name == "DistConstant" or (name in ("DistNormal", "DistLogNormal", "DistNormalTrunc") and i == 0):
                continue        # parameters without a documented bound (any number): NaN is not "outside a domain"
            args = list(base)
            args[i] = nan
            try:
                cls(MersenneTwister(1), *args)
                accepted.append("%s%r" % (name, tuple(args)))
            except (ValueError, TypeError):
                pass
    if accepted:
        return {"accepted": accepted, "failure": "NaN parameter accepted at construction by: %s" % ", ".join(accepted)}
    return None


def ctor_domain_search(cls_name):
    """Boundary probe of a constructor's documented domain (used when a constructor obligation is left open)."""
    import pydsol.core.distributions as D
    from pydsol.core.streams import MersenneTwister
    DOMAIN = {
        "DistBernoulli": lambda p: 0 <= p[0] <= 1, "DistBinomial": lambda p: p[0] > 0 and 0 <= p[1] <= 1,
        "DistDiscreteUniform": lambda p: p[0] < p[1], "DistConstant": lambda p: True, "DistExponential": lambda p: p[0] > 0,
        "DistGamma": lambda p: p[0] > 0 and p[1] > 0, "DistPoisson": lambda p: p[0] > 0,
        "DistTriangular": lambda p: p[0] <= p[1] <= p[2] and p[0] != p[2], "DistUniform": lambda p: p[0] < p[1],
        "DistWeibull": lambda p: p[0] > 0 and p[1] > 0, "DistNormal": lambda p: p[1] > 0, "DistLogNormal": lambda p: p[1] > 0,
        "DistPearson5": lambda p: p[0] > 0 and p[1] > 0, "DistPearson6": lambda p: p[0] > 0 and p[1] > 0 and p[2] > 0,
        "DistBeta": lambda p: p[0] > 0 and p[1] > 0, "DistErlang": lambda p: p[0] > 0 and p[1] > 0,
        "DistGeometric": lambda p: 0 <= p[0] < 1, "DistNegBinomial": lambda p: p[0] > 0 and 0 <= p[1] < 1,
    }
    if cls_name not in DOMAIN or cls_name not in DIST_GRID:
        return None
    cls = getattr(D, cls_name)
    base = list(DIST_GRID[cls_name][-1])
    vals = [-1.0, 0.0, 0.5, 1.0, 1.0 + 2.0 ** -52, 2.0, 7.5, float("nan")]
    for i in range(len(base)):
        for v in vals:
            args = list(base)
            if isinstance(base[i], int):
                if v != v or int(v) != v:
                    continue
                args[i] = int(v)
            else:
                if v != v and (cls_name == "DistConstant" or (cls_name in ("DistNormal", "DistLogNormal") and i == 0)):
                    continue        # no documented bound for this parameter
                args[i] = v
            inside = DOMAIN[cls_name](args)
            try:
                d = cls(MersenneTwister(1), *args)
                ok = True
            except ValueError:
                ok = False
            except Exception as e:
                return {"class": cls_name, "parameters": args, "failure": "constructor raised %s: %s" % (type(e).__name__, e)}
            if ok != inside:
                return {"class": cls_name, "parameters": args,
                        "failure": "%s%r was %s; the documented domain says %s" % (cls_name, tuple(args), "accepted" if ok else "rejected",
                                                                                "inside" if inside else "outside")}
            if ok and not (cls_name in ("DistGeometric", "DistNegBinomial") and args[-1] == 0.0):
                # (p = 0 of the geometric family is the listed known finding of draw(): not this probe's business)
                try:
                    d.draw()
                except Exception as e:
                    return {"class": cls_name, "parameters": args, "failure": "accepted parameters but draw() raised %s: %s" % (type(e).__name__, e)}
    return None


@replayer(r"(Dist\w+|Distribution)\.(draw|_next_gaussian|_set_stream|__init__|stream@setter)")
def replay_dist(rec):
    if rec.get("obligation") == "bounded-sweep-normaltrunc":
        f = dist_search("DistNormalTrunc")
        return {"reproduced": bool(f), "input": f, "observed": f["failure"] if f else None, "note": "every draw within the bounds, none raised"}
    if rec.get("obligation") == "witness-nan-parameters":
        f = nan_parameter_probe()
        return {"reproduced": bool(f), "input": f, "observed": f["failure"] if f else None, "note": "every NaN parameter is rejected"}
    if rec["function"].endswith(".__init__"):
        f = ctor_domain_search(rec["function"].split(".")[0])
        if f:
            return {"reproduced": True, "input": f, "observed": f["failure"]}
    cls_name = rec["function"].split(".")[0]
    want = exc_class_of(rec) if rec.get("obligation", "").startswith("noexc") else None
    names = [cls_name] if cls_name in DIST_GRID else list(DIST_GRID)
    if rec["function"].endswith("_next_gaussian"):
        names = ["DistNormal", "DistLogNormal"]
    met = set()
    for n in names:
        f = dist_search(n, want, skip=rec.get("known_exceptions") or (), met=met)
        if f:
            return {"reproduced": True, "input": f, "observed": f["failure"], "known_met": sorted(met)}
    if want is None:
        f = dist_purity_search()
        if f:
            return {"reproduced": True, "input": f, "observed": f["failure"], "known_met": sorted(met)}
    return {"reproduced": False, "note": "no failing (parameters, uniforms) found on the extreme-uniform grid", "known_met": sorted(met)}


def dist_purity_search():
    """Equal parameters on equally seeded streams give identical draws -- also after the distribution was pointed at a
    stream again (the same object after reseeding, or another object), after odd/even numbers of earlier draws."""
    import pydsol.core.distributions as D
    from pydsol.core.streams import MersenneTwister
    for cls_name, grid in DIST_GRID.items():
        cls = getattr(D, cls_name)
        for params in grid[:2]:
            for warm in (0, 1, 2, 3):
                for mode in ("same-object-reseeded", "new-object"):
                    try:
                        s1 = MersenneTwister(7)
                        d = cls(s1, *params)
                        for _ in range(warm):
                            d.draw()
                        if mode == "same-object-reseeded":
                            s1.set_seed(42)
                            d.stream = s1
                        else:
                            d.stream = MersenneTwister(42)
                        got = [d.draw() for _ in range(4)]
                        ref = cls(MersenneTwister(42), *params)
                        exp = [ref.draw() for _ in range(4)]
                    except (ValueError, ZeroDivisionError):
                        continue
                    if got != exp:
                        return {"class": cls_name, "parameters": params, "draws_before_repointing": warm, "mode": mode,
                                "failure": "draws after re-pointing %s differ from a fresh instance on an equally seeded stream %s" % (got[:2], exp[:2])}
    return None


# ------------------------------------------------------------------ C10 weighted / time-weighted tallies
def weighted_search(rounds=1500, seed=0):
    from fractions import Fraction as F
    from pydsol.core.statistics import WeightedTally, TimestampWeightedTally
    rng = random.Random(seed)

    def ref_weighted(obs):
        pos = [(F(w), F(x)) for w, x in obs if w > 0]
        W = sum((w for w, _ in pos), F(0))
        A = sum((w * x for w, x in pos), F(0))
        r = {"n": len(obs), "min": min((F(x) for _, x in obs), default=None), "max": max((F(x) for _, x in obs), default=None),
             "wsum": A}
        if W > 0:
            mu = A / W
            var = sum((w * (x - mu) ** 2 for w, x in pos), F(0)) / W
            r.update(mean=mu, var_b=var, var_u=(var * len(pos) / (len(pos) - 1) if len(pos) > 1 else None))
        else:
            r.update(mean="any", var_b="nan-or-value", var_u="nan-or-value")
        return r

    def cmp(t, ref, what):
        got = {"n": t.n(), "min": t.min(), "max": t.max(), "wsum": t.weighted_sum(), "mean": t.weighted_mean(),
               "var_b": t.weighted_variance(), "var_u": t.weighted_variance(False), "sd_b": t.weighted_stdev()}
        for k in ("n", "min", "max", "wsum", "mean", "var_b", "var_u"):
            e = ref[k]
            if isinstance(e, str):
                continue
            if k == "n":
                if got[k] != e:
                    return "%s: n() = %r, expected %r" % (what, got[k], e)
            elif not close(got[k], e, 1e-7):
                return "%s: %s = %r, exact reference %r" % (what, k, got[k], None if e is None else float(e))
        return None
    for r in range(rounds):
        # plain weighted tally
        obs = []
        t = WeightedTally("replay")
        for _ in range(rng.randrange(0, 7)):
            w = rng.choice([0, 0, 1, 2, 0.5, 3.25])
            x = rng.choice([0, 1, 2.5, -1, 4, 4])
            try:
                t.register(w, x)
            except Exception as e:
                return {"observations": obs + [(w, x)], "failure": "register raised %s: %s" % (type(e).__name__, e)}
            obs.append((w, x))
            try:
                m = cmp(t, ref_weighted(obs), "after %d weighted observations" % len(obs))
            except Exception as e:
                return {"observations": obs, "failure": "query raised %s: %s" % (type(e).__name__, e)}
            if m:
                return {"observations": obs, "failure": m}
        # timestamped variant
        ts = TimestampWeightedTally("replay")
        hist, sig, active, tcur = [], [], True, None
        for _ in range(rng.randrange(1, 8)):
            op = rng.choice(["reg", "reg", "reg", "same", "end", "init", "back"])
            try:
                if op == "init" and rng.random() < 0.3:
                    ts.initialize()
                    hist.append(("initialize",))
                    sig, active, tcur = [], True, None
                elif op == "end" and tcur is not None and rng.random() < 0.5:
                    T = tcur + rng.choice([0, 1, 2.5])
                    ts.end_observations(T)
                    hist.append(("end_observations", T))
                    if active:
                        sig.append((T, sig[-1][1] if sig else 0.0))
                        tcur = T
                    active = False
                elif op == "back" and tcur is not None:
                    try:
                        ts.register(tcur - 1, 9.0)
                        return {"history": hist + [("register", tcur - 1, 9.0)], "failure": "an earlier timestamp was accepted"}
                    except ValueError:
                        hist.append(("register-earlier-refused", tcur - 1))
                else:
                    tnew = (tcur if tcur is not None else rng.choice([0, 1.0])) + (0 if op == "same" else rng.choice([0, 1, 0.5, 2]))
                    v = rng.choice([0, 1, 2, 5, -1.5])
                    ts.register(tnew, v)
                    hist.append(("register", tnew, v))
                    if active:
                        sig.append((tnew, v))
                        tcur = tnew
            except Exception as e:
                return {"history": hist, "failure": "%s raised %s: %s" % (op, type(e).__name__, e)}
            # reference: weighted observations (dt, previous value) for strictly later timestamps
            wobs = []
            last_t, last_v = None, None
            for (tt, vv) in sig:
                if last_t is None:
                    last_t, last_v = tt, vv
                    continue
                if tt > last_t:
                    wobs.append((tt - last_t, last_v))
                    last_t = tt
                last_v = vv
            try:
                m = cmp(ts, ref_weighted(wobs), "timestamped history")
            except Exception as e:
                return {"history": hist, "failure": "query raised %s: %s" % (type(e).__name__, e)}
            if m:
                return {"history": hist, "failure": m}
    return None


@replayer(r"(WeightedTally|TimestampWeightedTally|EventBasedWeightedTally|EventBasedTimestampWeightedTally)\..*")
def replay_weighted(rec):
    for seed in range(2):
        f = weighted_search(seed=seed)
        if f:
            return {"reproduced": True, "input": f, "observed": f["failure"]}
    return {"reproduced": False, "note": "no failing weighted / timestamped history found (3000 random histories)"}


def simstat_search(rounds=80, seed=0):
    """Simulation statistics on the real code, driven through the real publish/subscribe path: a producer fires data
    events, the (not started) simulator fires WARMUP / END_REPLICATION at a harness-controlled clock.  Oracle: after every
    operation the statistic answers exactly like the plain statistic of its family fed the observations made since the
    last warm-up (same operations in the same order, so equality is exact; NaN equals NaN)."""
    import io
    import contextlib
    from pydsol.core.simulator import DEVSSimulatorFloat
    from pydsol.core.pubsub import EventProducer
    from pydsol.core.interfaces import StatEvents, ReplicationInterface
    from pydsol.core.statistics import (SimCounter, SimTally, SimWeightedTally, SimPersistent, Counter, Tally, WeightedTally,
                                        TimestampWeightedTally)
    rng = random.Random(3000 + seed)

    def same(a, b):
        if isinstance(a, float) and isinstance(b, float) and math.isnan(a) and math.isnan(b):
            return True
        return a == b

    QUERIES = {"counter": ("n", "count"), "tally": ("n", "sum", "min", "max", "mean", "variance", "stdev"),
               "weighted": ("n", "min", "max", "weighted_sum", "weighted_mean", "weighted_variance"),
               "persistent": ("n", "min", "max", "weighted_sum", "weighted_mean", "weighted_variance")}
    out = io.StringIO()
    for r in range(rounds):
        kind = ("counter", "tally", "weighted", "persistent")[r % 4]
        sim = DEVSSimulatorFloat("simstat")
        clock = rng.choice([0.0, 0.0, 5.0])
        sim._simulator_time = clock
        if sim.simulator_time != clock:
            return None      # the harness cannot drive the clock of this tree through the field it knows: not applicable
        prod = EventProducer()
        via_clock = False
        if kind == "counter":
            stat, fresh = SimCounter("k", "c", sim, producer=prod, event_type=StatEvents.DATA_EVENT), (lambda: Counter("ref"))
        elif kind == "tally":
            stat, fresh = SimTally("k", "t", sim, producer=prod, event_type=StatEvents.DATA_EVENT), (lambda: Tally("ref"))
        elif kind == "weighted":
            stat, fresh = SimWeightedTally("k", "w", sim, producer=prod, event_type=StatEvents.WEIGHT_DATA_EVENT), (lambda: WeightedTally("ref"))
        else:
            # half of the persistent statistics observe plain data events at the simulator clock
            via_clock = rng.random() < 0.5
            stat = SimPersistent("k", "p", sim, producer=prod,
                                 event_type=StatEvents.DATA_EVENT if via_clock else StatEvents.TIMESTAMP_DATA_EVENT)
            fresh = lambda: TimestampWeightedTally("ref")
        ref = fresh()
        ops = []
        closed = False
        try:
            with contextlib.redirect_stdout(out), contextlib.redirect_stderr(out):
                for _ in range(rng.randrange(2, 12)):
                    k = rng.random()
                    if k < 0.55:
                        if kind == "counter":
                            x = rng.choice([1, 1, 2, 5, -3, 0])
                            ops.append(("observe", x))
                            prod.fire(StatEvents.DATA_EVENT, x)
                            ref.register(x)
                        elif kind == "tally":
                            x = rng.choice([0.0, 1.0, 2.5, -1.0, 7.25])
                            ops.append(("observe", x))
                            prod.fire(StatEvents.DATA_EVENT, x)
                            ref.register(x)
                        elif kind == "weighted":
                            w, x = rng.choice([0.0, 0.5, 1.0, 2.0]), rng.choice([0.0, 1.0, 2.5, -1.0])
                            ops.append(("observe", w, x))
                            prod.fire(StatEvents.WEIGHT_DATA_EVENT, (w, x))
                            ref.register(w, x)
                        else:
                            x = rng.choice([0.0, 1.0, 3.0, 5.0, -2.0])
                            ops.append(("observe at", clock, x))
                            if via_clock:
                                prod.fire(StatEvents.DATA_EVENT, x)
                            else:
                                prod.fire_timed(clock, StatEvents.TIMESTAMP_DATA_EVENT, x)
                            ref.register(clock, x)
                    elif k < 0.8:
                        clock += rng.choice([0.0, 0.5, 1.0, 2.0])
                        sim._simulator_time = clock
                        ops.append(("clock", clock))
                    elif k < 0.93:
                        ops.append(("warm-up at", clock))
                        sim.fire_timed(clock, ReplicationInterface.WARMUP_EVENT, None)
                        ref = fresh()
                    elif kind == "persistent":
                        ops.append(("end of replication at", clock))
                        sim.fire_timed(clock, ReplicationInterface.END_REPLICATION_EVENT, None)
                        ref.end_observations(clock)
                        closed = True
                    for q in QUERIES[kind]:
                        a, b = getattr(stat, q)(), getattr(ref, q)()
                        if not same(a, b):
                            return {"statistic": type(stat).__name__, "operations": ops, "observes_at_simulator_clock": via_clock,
                                    "failure": "%s.%s() is %r after %s; the plain %s fed the observations since the last warm-up reports %r"
                                               % (type(stat).__name__, q, a, ops[-6:], type(ref).__name__, b)}
                    if closed:
                        break
        except Exception as e:
            return {"statistic": type(stat).__name__, "operations": ops, "failure": "%s escaped: %s" % (type(e).__name__, e)}
        finally:
            try:
                with contextlib.redirect_stdout(out):
                    sim.cleanup()
            except Exception:
                pass
    return None


@replayer(r"(SimCounter|SimTally|SimWeightedTally|SimPersistent|EventBasedCounter|EventBasedTally|Counter)\..*")
def replay_simstat(rec):
    for seed in range(2 * DEPTH):
        f = simstat_search(seed=seed)
        if f:
            return {"reproduced": True, "input": f, "observed": f["failure"]}
    return {"reproduced": False, "note": "no failing observation / warm-up schedule found (160 generated schedules x 4 statistic families)"}


# ------------------------------------------------------------------ C12 streams
@replayer(r"MersenneTwister\..*")
def replay_streams(rec):
    from pydsol.core.streams import MersenneTwister
    rng = random.Random(4)
    ranges = [(0, 9), (5, 5), (-7, -3), (-(2 ** 70), 2 ** 70), (2 ** 53 + 1, 2 ** 53 + 1), (10 ** 17 + 1, 10 ** 17 + 10),
              (2 ** 62 + 3, 2 ** 62 + 5), (-(2 ** 63), -(2 ** 63) + 2), (0, 2 ** 64)]
    for seed in (0, 1, -5, 2 ** 40, 123456789):
        a, b = MersenneTwister(seed), MersenneTwister(seed)
        other = MersenneTwister(99)
        saved = None
        after_save = []
        for step in range(120):
            op = rng.choice(["f", "i", "b", "save", "other"])
            if op == "other":
                other.next_float()
                other.next_int(0, 5)
                continue
            if op == "save" and saved is None:
                saved = a.save_state()
                b.save_state()
                continue
            if op == "f":
                x, y = a.next_float(), b.next_float()
                ok = 0.0 <= x < 1.0
            elif op == "b":
                x, y = a.next_bool(), b.next_bool()
                ok = True
            else:
                lo, hi = rng.choice(ranges)
                x, y = a.next_int(lo, hi), b.next_int(lo, hi)
                ok = lo <= x <= hi
                op = ("i", lo, hi)
            if saved is not None:
                after_save.append((op, x))
            if x != y:
                return {"reproduced": True, "input": {"seed": seed, "step": step, "op": op}, "observed": "twin streams differ: %r vs %r" % (x, y)}
            if not ok:
                return {"reproduced": True, "input": {"seed": seed, "op": op}, "observed": "draw %r outside the requested range" % (x,)}
        if saved is not None:
            a.restore_state(saved)
            for op, x in after_save:
                y = a.next_float() if op == "f" else a.next_bool() if op == "b" else a.next_int(op[1], op[2])
                if y != x:
                    return {"reproduced": True, "input": {"seed": seed, "op": op}, "observed": "after restore_state the sequence differs: %r vs %r" % (y, x)}
        c = MersenneTwister(seed)
        first = [c.next_float() for _ in range(5)]
        c.reset()
        if [c.next_float() for _ in range(5)] != first:
            return {"reproduced": True, "input": {"seed": seed}, "observed": "reset does not replay the sequence"}
    return {"reproduced": False, "note": "twin / reset / restore / range checks passed for 5 seeds x 120 interleaved draws incl. huge ranges"}


# ------------------------------------------------------------------ C02 / C03 / C04 / C05 simulator
def _wait_quiescent(sim, limit=5.0):
    import time as _t
    t0 = _t.time()
    while sim.is_starting_or_running() and _t.time() - t0 < limit:
        _t.sleep(0.002)
    _t.sleep(0.01)


def simulator_search(rounds=60, seed=0):
    """Generated model programs (handlers that schedule children now / after a delay / at an absolute time with
    priorities, cancel pending events, tie on times, fail) run on the real DEVSSimulatorFloat -- in one piece and cut
    into run_up_to / run_up_to_including / step / stop-start segments, under the non-terminating error strategies --
    against a reference DEVS semantics (sorted by time, then higher priority, then scheduling order)."""
    import heapq
    import io
    import contextlib
    from pydsol.core.simulator import DEVSSimulatorFloat, ErrorStrategy, RunState, ReplicationState
    from pydsol.core.model import DSOLModel
    from pydsol.core.experiment import SingleReplication
    from pydsol.core.utils import DSOLError
    from pydsol.core.simevent import SimEvent
    rng = random.Random(seed)
    END = 10.0

    class UserEvent(SimEvent):
        """a user-defined event class (the simulator accepts any SimEventInterface through schedule_event): its execute
        calls the target directly, so a failing handler surfaces as the handler's own exception, not as DSOLError"""
        def execute(self):
            getattr(self.target, self.method)(**self.kwargs)

    def gen_program():
        # tag -> list of actions
        prog = {}
        n = rng.randrange(4, 11)
        for tag in range(n):
            acts = []
            for _ in range(rng.randrange(0, 3)):
                k = rng.random()
                if tag + 1 >= n:
                    break
                child = rng.randrange(tag + 1, n)      # children have larger tags: every program terminates
                if k < 0.45:
                    acts.append(("rel", rng.choice([0.0, 0.5, 1.0, 1.0, 2.5]), rng.choice([1, 5, 5, 10]), child))
                elif k < 0.6:
                    acts.append(("now", rng.choice([1, 5, 10]), child))
                elif k < 0.75:
                    acts.append(("abs", rng.choice([2.0, 5.0, 7.5, 10.0, 12.0]), rng.choice([1, 5, 10]), child))
                elif k < 0.86:
                    acts.append(("cancel", rng.randrange(12)))
                elif k < 0.93:
                    acts.append(("cmd", rng.choice(["run_up_to", "run_up_to_including", "start", "step"]), rng.choice([0.5, 3.0, 6.5, 20.0])))
                else:
                    acts.append(("bad", rng.choice([-1.0, float("nan")])))
            prog[tag] = acts
        ninit = rng.randrange(2, 6) if rng.random() < 0.6 else rng.randrange(7, 14)
        init = [(rng.choice([0.0, 1.0, 1.0, 2.0, 3.5, 4.0, 5.5, 6.0, 7.0, 8.5, 9.0, 10.0]), rng.choice([1, 5, 5, 10]), rng.randrange(n)) for _ in range(ninit)]
        fails = {t for t in range(n) if rng.random() < 0.15}
        return prog, init, fails

    def reference(prog, init, fails, bound=END, strategy=ErrorStrategy.WARN_AND_CONTINUE):
        heap, seq, trace, handles, clock = [], [0], [], [], 0.0
        def sched(t, p, tag):
            seq[0] += 1
            e = [t, -p, seq[0], tag, True]
            heapq.heappush(heap, e)
            handles.append(e)
        for (t, p, tag) in init:
            sched(t, p, tag)
        while heap:
            e = heapq.heappop(heap)
            if not e[4]:
                continue
            if e[0] > bound:
                heapq.heappush(heap, e)
                break
            e[4] = False
            clock = e[0]
            trace.append((clock, e[3]))
            for a in prog[e[3]]:
                if a[0] == "rel":
                    sched(clock + a[1], a[2], a[3])
                elif a[0] == "now":
                    sched(clock, a[1], a[2])
                elif a[0] == "abs":
                    if a[1] >= clock:
                        sched(a[1], a[2], a[3])
                elif a[0] == "cancel":
                    if a[1] < len(handles):
                        handles[a[1]][4] = False
            # a failing handler fails AFTER its actions
        return trace

    for r in range(rounds):
        prog, init, fails = gen_program()
        exp = reference(prog, init, fails)
        for mode in ("start", "segments", "steps", "pause"):
            strategy = rng.choice([ErrorStrategy.LOG_AND_CONTINUE, ErrorStrategy.WARN_AND_CONTINUE])
            if mode == "pause":
                strategy = ErrorStrategy.WARN_AND_PAUSE
            want = list(exp)
            trace, handles, refused = [], [], []
            # every third program schedules user-defined event objects through schedule_event
            user_events = (r % 3 == 2)

            class M(DSOLModel):
                def sched_abs(self, t, p, tag):
                    if user_events:
                        return self.simulator.schedule_event(UserEvent(t, self, "h", p, tag=tag))
                    return self.simulator.schedule_event_abs(t, self, "h", p, tag=tag)

                def construct_model(self):
                    for (t, p, tag) in init:
                        handles.append(self.sched_abs(t, p, tag))

                def h(self, tag):
                    sim = self.simulator
                    trace.append((sim.simulator_time, tag))
                    for a in prog[tag]:
                        if a[0] == "rel":
                            if user_events:
                                handles.append(self.sched_abs(sim.simulator_time + a[1], a[2], a[3]))
                            else:
                                handles.append(sim.schedule_event_rel(a[1], self, "h", a[2], tag=a[3]))
                        elif a[0] == "now":
                            if user_events:
                                handles.append(self.sched_abs(sim.simulator_time, a[1], a[2]))
                            else:
                                handles.append(sim.schedule_event_now(self, "h", a[1], tag=a[2]))
                        elif a[0] == "abs":
                            try:
                                handles.append(self.sched_abs(a[1], a[2], a[3]))
                            except DSOLError:
                                pass
                        elif a[0] == "cancel":
                            if a[1] < len(handles):
                                sim.cancel_event(handles[a[1]])
                        elif a[0] == "cmd":
                            # a command issued while the run is in progress must be refused and change nothing
                            try:
                                if a[1] == "start":
                                    sim.start()
                                elif a[1] == "step":
                                    sim.step()
                                else:
                                    getattr(sim, a[1])(a[2])
                                if mode != "steps":
                                    refused.append("%s issued from a handler while running was accepted" % a[1])
                            except DSOLError:
                                pass
                        elif a[0] == "bad":
                            before = sim.eventlist().size()
                            try:
                                sim.schedule_event_rel(a[1], self, "h", 5, tag=0)
                                refused.append("illegal delay %r accepted" % (a[1],))
                            except DSOLError:
                                if sim.eventlist().size() != before:
                                    refused.append("refused scheduling changed the pending events")
                            except Exception as e:
                                refused.append("illegal delay %r raised %s instead of DSOLError" % (a[1], type(e).__name__))
                    if tag in fails:
                        if tag % 2 and not user_events:
                            raise SystemExit(3)        # a handler calling sys.exit(): still a handler failure
                        raise RuntimeError("injected handler failure")
            sim = DEVSSimulatorFloat("replay")
            sim.set_error_strategy(strategy, 100)
            m = M(sim)
            cuts = []
            out = io.StringIO()
            try:
                with contextlib.redirect_stdout(out), contextlib.redirect_stderr(out):
                    sim.initialize(m, SingleReplication("r", 0.0, 0.0, END))
                    if mode == "start":
                        sim.start()
                        _wait_quiescent(sim)
                    elif mode == "pause":
                        # warn-and-pause: the run stops immediately after every failing event; resuming runs the rest
                        for _ in range(60):
                            try:
                                sim.start()
                            except DSOLError:
                                # paused exactly at the replication end: the documented start rule (clock before the end)
                                # refuses; only events of the end instant can remain -- not counted against the property
                                if sim.simulator_time >= END and all(t >= END for t, _ in exp[len(trace):]):
                                    want = exp[:len(trace)]
                                break
                            _wait_quiescent(sim)
                            if sim.replication_state in (ReplicationState.ENDED, ReplicationState.ENDING):
                                break
                            cuts.append(("paused after", trace[-1] if trace else None))
                            if not trace or trace[-1][1] not in fails or trace != exp[:len(trace)]:
                                return {"program": prog, "initial": init, "failing_tags": sorted(fails), "mode": mode,
                                        "failure": "warn-and-pause: the run paused with executed trace %s (reference %s); the last executed "
                                                   "event must be the failing one and nothing after it may have run" % (trace[-6:], exp[:len(trace) + 2][-8:])}
                    elif mode == "segments":
                        pts = sorted(rng.sample([0.5, 1.0, 2.0, 3.5, 5.0, 7.5, 9.0, 10.0, 10.0], rng.randrange(1, 4)))
                        for c in pts:
                            if c <= sim.simulator_time:
                                continue
                            incl = rng.random() < 0.5
                            cuts.append((c, incl))
                            (sim.run_up_to_including if incl else sim.run_up_to)(c)
                            _wait_quiescent(sim)
                            if c >= END:
                                # a bounded run to the replication end: ends the replication; the exclusive variant leaves the
                                # events scheduled exactly at the end unexecuted
                                want_end = [e for e in exp if e[0] < END or incl]
                                if sim.simulator_time != END or trace != want_end:
                                    return {"program": prog, "initial": init, "failing_tags": sorted(fails), "mode": mode, "cuts": cuts,
                                            "failure": "%s(%r) at the replication end: clock %r, executed %s; expected clock %r and %s"
                                                       % ("run_up_to_including" if incl else "run_up_to", c, sim.simulator_time, trace[-6:], END, want_end[-6:])}
                                want = want_end
                                break
                            if sim.replication_state not in (ReplicationState.STARTED,):
                                return {"program": prog, "initial": init, "cuts": cuts, "failure": "bounded run to %r left replication state %s (not resumable)" % (c, sim.replication_state)}
                            if sim.simulator_time != c:
                                return {"program": prog, "initial": init, "cuts": cuts, "failure": "clock %r after bounded run to %r" % (sim.simulator_time, c)}
                        try:
                            sim.start()
                        except DSOLError:
                            if not (cuts and cuts[-1][0] >= END):
                                raise
                        _wait_quiescent(sim)
                    else:
                        for _ in range(200):
                            try:
                                sim.step()
                            except DSOLError:
                                break
                            cuts.append("step")
                            if sim.run_state != RunState.STOPPED:
                                return {"program": prog, "initial": init, "failure": "run state %s after step()" % sim.run_state}
            except Exception as e:
                return {"program": prog, "initial": init, "failing_tags": sorted(fails), "mode": mode, "cuts": cuts,
                        "failure": "%s escaped: %s" % (type(e).__name__, e)}
            finally:
                try:
                    with contextlib.redirect_stdout(out):
                        sim.cleanup()
                except Exception:
                    pass
            if refused:
                return {"program": prog, "initial": init, "failure": refused[0]}
            if mode == "steps":
                # stepping stops when the clock reaches the end; events AT the end are still within it
                if trace != exp[:len(trace)] or any(t > END for t, _ in trace):
                    return {"program": prog, "initial": init, "failing_tags": sorted(fails), "mode": mode,
                            "failure": "stepped trace %s is not a prefix of the reference %s" % (trace[:12], exp[:12])}
            elif trace != want:
                return {"program": prog, "initial": init, "failing_tags": sorted(fails), "mode": mode, "cuts": cuts,
                        "strategy": strategy, "user_defined_event_class": user_events, "failure": "executed trace %s differs from the reference semantics %s" % (trace[:14], want[:14])}
            for i in range(1, len(trace)):
                if trace[i][0] < trace[i - 1][0]:
                    return {"program": prog, "initial": init, "failure": "clock moved backwards in the trace %s" % (trace,)}
    return None


def reinit_search(rounds=40, seed=0, witness=None):
    """Replication isolation on the real code: a seeded model program (stream, SimTally/SimCounter/SimPersistent created in
    construct_model, handlers that draw, observe and schedule) is run for a replication on a simulator with a generated
    prior history (fresh / only initialised / stepped k times / paused by a bounded run / ended / paused by a failing
    handler) and compared with the same replication on a brand-new simulator and model: trace, clock, statistics, number of
    pending events right after initialize, notification stream.  Initialising from inside a handler must be refused."""
    import io
    import contextlib
    from pydsol.core.simulator import DEVSSimulatorFloat, ErrorStrategy, RunState, ReplicationState
    from pydsol.core.model import DSOLModel
    from pydsol.core.experiment import SingleReplication
    from pydsol.core.pubsub import EventProducer, EventListener
    from pydsol.core.interfaces import StatEvents, ReplicationInterface, SimulatorInterface
    from pydsol.core.statistics import SimTally, SimCounter, SimPersistent
    from pydsol.core.streams import MersenneTwister
    from pydsol.core.utils import DSOLError
    rng = random.Random(1000 + seed)

    class Rec(EventListener):
        def __init__(self):
            self.got = []

        def notify(self, event):
            self.got.append((event.event_type.name, getattr(event, "timestamp", None)))

    def make_model(sim, prog):
        class M(DSOLModel, EventProducer):
            def __init__(self, simulator):
                DSOLModel.__init__(self, simulator)
                EventProducer.__init__(self)
                self.refused = []

            def construct_model(self):
                self.trace = []
                self.stream = MersenneTwister(prog["seed"])
                # the model's data source: rebuilt for every replication, or the model object itself
                self.source = self if prog.get("own_producer") else EventProducer()
                self.tally = SimTally("tally", "t", self.simulator)
                self.tally.listen_to(self.source, StatEvents.DATA_EVENT)
                self.counter = SimCounter("counter", "c", self.simulator)
                self.counter.listen_to(self.source, StatEvents.DATA_EVENT)
                if prog["persistent"]:
                    self.pers = SimPersistent("pers", "p", self.simulator)
                    self.pers.listen_to(self.source, StatEvents.TIMESTAMP_DATA_EVENT)
                for (t, prio, tag) in prog["initial"]:
                    self.simulator.schedule_event_abs(prog["start"] + t, self, "h", prio, tag=tag)

            def init_sched(self):
                # an initial method (Simulator.add_initial_method): runs at the end of every initialize
                self.init_calls = getattr(self, "init_calls", 0) + 1
                self.simulator.schedule_event_abs(prog["start"] + 1.5, self, "h", 5, tag=0)

            def h(self, tag):
                try:
                    self._h(tag)
                except RuntimeError:
                    raise
                except Exception as e:       # a failure of the harness itself, not an injected one
                    import traceback
                    self.refused.append("handler failed unexpectedly: %s: %s | %s" % (type(e).__name__, e, traceback.format_exc()[-400:]))
                    raise

            def _h(self, tag):
                sim = self.simulator
                x = self.stream.next_int(1, 9)
                self.trace.append((sim.simulator_time, tag, x))
                self.source.fire(StatEvents.DATA_EVENT, x)
                if prog["persistent"]:
                    self.source.fire_timed(sim.simulator_time, StatEvents.TIMESTAMP_DATA_EVENT, float(x))
                for (d, prio, child) in prog["children"].get(tag, []):
                    sim.schedule_event_rel(d * (1 + x % 2), self, "h", prio, tag=child)
                if tag in prog["reinit_from"]:
                    before = sim.eventlist().size()
                    try:
                        sim.initialize(self, prog["repl"]())
                        self.refused.append("initialize() from a handler of a running simulator was accepted")
                    except DSOLError:
                        if sim.eventlist().size() != before:
                            self.refused.append("refused initialize() changed the pending events (%d -> %d)" % (before, sim.eventlist().size()))
                if tag in prog["fails"] and prog["arm"][0]:
                    raise RuntimeError("injected failure")
        return M(sim)

    def observe(sim, m, prog):
        """initialize was just called: run the replication to its end and collect everything observable"""
        obs = {"clock_at_start": sim.simulator_time, "pending_at_start": sim.eventlist().size(),
               "run_state_at_start": str(sim.run_state), "replication_state_at_start": str(sim.replication_state),
               "stat_keys": sorted(m.output_statistics().keys())}
        rec = Rec()
        for et in (SimulatorInterface.START_EVENT, SimulatorInterface.STOP_EVENT, SimulatorInterface.TIME_CHANGED_EVENT,
                   ReplicationInterface.WARMUP_EVENT, ReplicationInterface.END_REPLICATION_EVENT):
            sim.add_listener(et, rec)
        sim.start()
        _wait_quiescent(sim)
        import time as _t
        _t.sleep(0.02)
        t, c = m.output_statistics()["tally"], m.output_statistics()["counter"]
        obs.update({"trace": list(m.trace), "clock": sim.simulator_time, "run_state": str(sim.run_state),
                    "tally": (t.n(), t.sum(), t.min(), t.max()), "counter": (c.n(), c.count()),
                    "same_objects": t is m.tally and c is m.counter, "notifications": list(rec.got)})
        if prog["persistent"]:
            p = m.output_statistics()["pers"]
            obs["persistent"] = (p.n(), p.weighted_sum(), p.weighted_mean())
        return obs

    for rnd in range(rounds):
        n = rng.randrange(3, 8)
        prog = {"seed": rng.randrange(1, 1000), "persistent": rng.random() < 0.5,
                "initial": [(t0, rng.choice([1, 5, 5, 10] if t0 != 2.0 else [1, 5, 5]), rng.randrange(n))
                            for t0 in [rng.choice([0.0, 0.5, 1.0, 2.0, 2.0, 3.0, 4.5, 7.0, 10.0]) for _ in range(rng.randrange(2, 6))]],
                "children": {t: [(rng.choice([0.0, 0.5, 1.0, 2.0]), rng.choice([1, 5]), rng.randrange(t + 1, n))
                                 for _ in range(rng.randrange(0, 3))] for t in range(n - 1)},
                "reinit_from": {t for t in range(n) if rng.random() < 0.15},
                "fails": {t for t in range(n) if rng.random() < 0.2}, "arm": [False],
                "start": rng.choice([0.0, 0.0, 5.0, 100.0])}
        # replication start S, warm-up period 2.0 (warm-up time S + 2.0), run length 10.0
        prog["repl"] = (lambda S: (lambda: SingleReplication("r", S, 2.0, 10.0)))(prog["start"])
        # a model that is itself the data source keeps the statistics of earlier replications subscribed; a stale
        # SimPersistent then rejects the new replication's timestamps (known finding, probed separately by `witness`)
        prog["own_producer"] = rng.random() < 0.4
        if prog["own_producer"]:
            prog["persistent"] = False
        history = rng.choice(["fresh", "initialized", "steps", "paused", "ended", "fault"])
        cleanup_between = rng.random() < 0.3        # an explicit cleanup() before the simulator is initialised again
        # a third of the models registers an initial method on the simulator (not combined with an explicit cleanup(),
        # about which the statement says nothing)
        prog["initial_method"] = (rnd % 3 == 1) and not cleanup_between
        if witness is not None:
            prog.update(witness["program"])
            history = witness["history"]
        out = io.StringIO()
        sims = []
        try:
            with contextlib.redirect_stdout(out), contextlib.redirect_stderr(out):
                # reference: brand-new simulator and model
                ref_sim = DEVSSimulatorFloat("ref")
                sims.append(ref_sim)
                ref_m = make_model(ref_sim, prog)
                if prog.get("initial_method"):
                    ref_sim.add_initial_method(ref_m, "init_sched")
                ref_sim.initialize(ref_m, prog["repl"]())
                ref = observe(ref_sim, ref_m, prog)
                # the simulator with a history
                sim = DEVSSimulatorFloat("hist")
                sims.append(sim)
                m = make_model(sim, prog)
                if prog.get("initial_method"):
                    sim.add_initial_method(m, "init_sched")
                detail = history
                if history != "fresh":
                    sim.initialize(m, prog["repl"]())
                    if history == "steps":
                        k = rng.randrange(1, 6)
                        detail = "stepped %d times" % k
                        for _ in range(k):
                            try:
                                sim.step()
                            except DSOLError:
                                break
                    elif history == "paused":
                        c = prog["start"] + rng.choice([0.5, 1.0, 2.0, 3.0, 6.0])
                        detail = "paused by run_up_to(%r)" % c
                        sim.run_up_to(c)
                        _wait_quiescent(sim)
                    elif history == "ended":
                        sim.start()
                        _wait_quiescent(sim)
                    elif history == "fault":
                        sim.set_error_strategy(ErrorStrategy.WARN_AND_PAUSE, 100)
                        prog["arm"][0] = True
                        sim.start()
                        _wait_quiescent(sim)
                        prog["arm"][0] = False
                        sim.set_error_strategy(ErrorStrategy.WARN_AND_CONTINUE, 100)
                        detail = "paused by a failing handler" if sim.run_state != RunState.ENDED else "ended (no armed failure hit)"
                    if cleanup_between and witness is None:
                        sim.cleanup()
                        detail += ", then cleanup()"
                    sim.initialize(m, prog["repl"]())
                else:
                    sim.initialize(m, prog["repl"]())
                got = observe(sim, m, prog)
        except Exception as e:
            return {"program": {k: v for k, v in prog.items() if k not in ("repl", "arm")}, "history": history,
                    "failure": "%s escaped from the second replication: %s" % (type(e).__name__, e)}
        finally:
            for s_ in sims:
                try:
                    with contextlib.redirect_stdout(out):
                        s_.cleanup()
                except Exception:
                    pass
        progd = {k: (sorted(v) if isinstance(v, set) else v) for k, v in prog.items() if k not in ("repl", "arm")}
        if m.refused or ref_m.refused:
            return {"program": progd, "history": detail, "failure": (m.refused or ref_m.refused)[0]}
        S = prog["start"]
        if got["clock_at_start"] != S:
            return {"program": progd, "history": detail, "failure": "clock %r after initialize (replication start %r)" % (got["clock_at_start"], S)}
        # absolute oracle (also C11): the statistics hold exactly the observations made at or after the warm-up time 2.0
        # (model events at the warm-up instant have a lower priority than the warm-up event, so they come after it)
        for label, o in (("brand-new simulator", ref), ("simulator with history '%s'" % detail, got)):
            xs = [x for (t, _tag, x) in o["trace"] if t >= S + 2.0]
            want_t = (len(xs), float(sum(xs)) if xs else 0.0, float(min(xs)) if xs else None, float(max(xs)) if xs else None)
            have_t = (o["tally"][0], float(o["tally"][1]), None if o["tally"][0] == 0 else float(o["tally"][2]),
                      None if o["tally"][0] == 0 else float(o["tally"][3]))
            if have_t != want_t or o["counter"] != (len(xs), sum(xs)):
                return {"program": progd, "history": detail,
                        "failure": "on the %s the tally (n, sum, min, max) is %s and the counter %s; the observations at or after the "
                                   "warm-up time %r are %s" % (label, have_t, o["counter"], S + 2.0, xs)}
            if prog["persistent"] and "persistent" in o:
                # time average of the piecewise-constant signal from the first observation at or after warm-up to the end
                obs = [(t, float(x)) for (t, _tag, x) in o["trace"] if t >= S + 2.0]
                if obs and S + 10.0 > obs[0][0]:
                    ts = [t for t, _ in obs] + [S + 10.0]
                    area = sum(v * (ts[i + 1] - ts[i]) for i, (_, v) in enumerate(obs))
                    mean = area / (S + 10.0 - obs[0][0])
                    _n, wsum, wmean = o["persistent"]
                    if not (abs(wsum - area) <= 1e-9 * max(1.0, abs(area)) and abs(wmean - mean) <= 1e-9 * max(1.0, abs(mean))):
                        return {"program": progd, "history": detail,
                                "failure": "on the %s the persistent statistic reports weighted sum %r and mean %r; the time integral of its "
                                           "signal from the first observation after warm-up (%r) to the replication end is %r, the time "
                                           "average %r" % (label, wsum, wmean, obs[0][0], area, mean)}
        for k in ref:
            if repr(got[k]) != repr(ref[k]):
                return {"program": progd, "history": detail,
                        "failure": "%s of the replication after history '%s' is %s; on a brand-new simulator and model it is %s"
                                   % (k, detail, repr(got[k])[:300], repr(ref[k])[:300])}
    return None


REINIT_WITNESS = {"history": "ended",
                  "program": {"seed": 7, "persistent": True, "own_producer": True, "initial": [(1.0, 5, 0), (3.0, 5, 0), (6.0, 5, 0)],
                              "children": {}, "reinit_from": set(), "fails": set(), "start": 0.0}}


@replayer(r"(DEVSSimulator|Simulator)\.(initialize|cleanup)(\[.*\])?|EventListHeap\.clear|DSOLModel\.(add|get)_output_statistic")
def replay_reinit(rec):
    if rec.get("obligation") == "witness-stale-persistent":
        f = reinit_search(rounds=1, witness=REINIT_WITNESS)
        if f:
            return {"reproduced": True, "input": f, "observed": f["failure"]}
        return {"reproduced": False, "note": "the witness program runs its second replication like the first"}
    for seed in range(2 * DEPTH):
        f = reinit_search(seed=seed)
        if f:
            return {"reproduced": True, "input": f, "observed": f["failure"]}
    return {"reproduced": False, "note": "no history / model program found whose second replication differs (80 generated programs x 6 histories)"}


def lifecycle_search(rounds=60, seed=0):
    """BOUNDED: random command sequences (initialize, start, step, bounded runs, end_replication, re-initialize) issued at
    quiescence on the real simulator; oracle = the protocol clauses of C04 that need no reference model: a command
    raises nothing but DSOLError; a refused command changes nothing and notifies nobody; START_REPLICATION once and
    first; START/STOP strictly alternate; TIME_CHANGED times non-decreasing; WARMUP at most once, at the warm-up time;
    END_REPLICATION once and last, then ENDED, start/step/stop refused and the run thread gone."""
    import io
    import contextlib
    import threading
    import time as _t
    from pydsol.core.simulator import DEVSSimulatorFloat, RunState, ReplicationState
    from pydsol.core.model import DSOLModel
    from pydsol.core.experiment import SingleReplication
    from pydsol.core.pubsub import EventListener
    from pydsol.core.interfaces import ReplicationInterface, SimulatorInterface
    from pydsol.core.utils import DSOLError
    rng = random.Random(500 + seed)
    TYPES = (ReplicationInterface.START_REPLICATION_EVENT, SimulatorInterface.START_EVENT, SimulatorInterface.STOP_EVENT,
             SimulatorInterface.TIME_CHANGED_EVENT, ReplicationInterface.WARMUP_EVENT, ReplicationInterface.END_REPLICATION_EVENT)

    class Rec(EventListener):
        def __init__(self):
            self.got = []

        def notify(self, event):
            self.got.append((event.event_type.name, getattr(event, "timestamp", None)))

    class Commander(EventListener):
        """a subscriber that issues a command from inside a notification sent by step(): the step has not returned, the
        simulator counts as running, so the command must be refused (DSOLError) like any command on a running simulator"""
        def __init__(self, sim, plan):
            self.sim, self.plan, self.armed, self.accepted = sim, plan, False, []

        def notify(self, event):
            c = self.plan.get(event.event_type.name) if self.armed else None
            if c is None:
                return
            try:
                if c.startswith("run_up_to"):
                    getattr(self.sim, c)(self.sim.simulator_time + 1.0)
                else:
                    getattr(self.sim, c)()
                self.accepted.append((c, event.event_type.name))
            except DSOLError:
                pass

    class M(DSOLModel):
        def __init__(self, sim, times):
            super().__init__(sim)
            self.times = times

        def construct_model(self):
            for t in self.times:
                self.simulator.schedule_event_abs(t, self, "h")

        def h(self):
            pass

    def grammar(got, warm):
        names = [n for n, _ in got]
        if "START_EVENT" in names and (names.count("START_REPLICATION_EVENT") != 1 or names[0] != "START_REPLICATION_EVENT"):
            return "START_REPLICATION_EVENT is not 'once and first' in %s" % names[:8]
        ss = [n for n in names if n in ("START_EVENT", "STOP_EVENT")]
        for i, n in enumerate(ss):
            if n != ("START_EVENT" if i % 2 == 0 else "STOP_EVENT"):
                return "START/STOP notifications do not alternate: %s" % ss
        tc = [t for n, t in got if n == "TIME_CHANGED_EVENT"]
        if any(b < a for a, b in zip(tc, tc[1:])):
            return "TIME_CHANGED times decrease: %s" % tc
        w = [t for n, t in got if n == "WARMUP_EVENT"]
        if len(w) > 1 or (w and w[0] != warm):
            return "WARMUP notified %d times at %s (warm-up time %r)" % (len(w), w, warm)
        if names.count("END_REPLICATION_EVENT") > 1 or ("END_REPLICATION_EVENT" in names and names[-1] != "END_REPLICATION_EVENT"):
            return "END_REPLICATION is not 'once and last' in %s" % names[-8:]
        return None

    for rnd in range(rounds):
        times = sorted(rng.choice([0.0, 1.0, 2.0, 2.0, 3.5, 5.0, 5.0, 7.0, 9.0, 10.0]) for _ in range(rng.randrange(1, 7)))
        warm, end = 2.0, 10.0
        name = "lc%d_%d" % (seed, rnd)
        sim = DEVSSimulatorFloat(name)
        m = M(sim, times)
        out = io.StringIO()
        log = []
        rec = None
        # every other round a subscriber re-enters the simulator from inside one kind of notification of step()
        plan = {}
        if rnd % 2:
            plan = {rng.choice(["START_EVENT", "STOP_EVENT", "TIME_CHANGED_EVENT"]): rng.choice(["start", "step", "run_up_to", "run_up_to_including"])}
        cmdr = Commander(sim, plan)
        try:
            with contextlib.redirect_stdout(out), contextlib.redirect_stderr(out):
                cmds = ["initialize"] + [rng.choice(["start", "step", "step", "run_up_to", "run_up_to_including", "end_replication",
                                                     "stop", "initialize", "cleanup"]) for _ in range(rng.randrange(2, 8))]
                for c in cmds:
                    arg = rng.choice([0.5, 2.0, 3.5, 5.0, 10.0, 12.0, -1.0]) if c.startswith("run_up_to") else None
                    ended = sim.replication_state in (ReplicationState.ENDED, ReplicationState.ENDING)
                    if c == "end_replication" and (ended or sim.run_state == RunState.NOT_INITIALIZED):
                        continue
                    if c == "cleanup":
                        log.append((c, None))
                        sim.cleanup()       # the next command that can take effect is initialize (new replication, new listener)
                        if sim.run_state != RunState.NOT_INITIALIZED:
                            return {"events": times, "commands": log, "failure": "run state %s after cleanup()" % sim.run_state}
                        continue
                    before = (sim.run_state, sim.replication_state, sim.simulator_time, sim.eventlist().size(), len(rec.got) if rec else 0)
                    log.append((c, arg))
                    try:
                        if c == "initialize":
                            sim.initialize(m, SingleReplication("r", 0.0, warm, end))
                            rec = Rec()
                            for et in TYPES:
                                if plan:
                                    sim.add_listener(et, cmdr)
                                sim.add_listener(et, rec)
                        elif arg is not None:
                            getattr(sim, c)(arg)
                        else:
                            cmdr.armed = (c == "step")
                            try:
                                getattr(sim, c)()
                            finally:
                                cmdr.armed = False
                        refused = False
                    except DSOLError:
                        refused = True
                    except Exception as e:
                        return {"events": times, "commands": log, "failure": "%s raised %s: %s" % (c, type(e).__name__, e)}
                    _wait_quiescent(sim)
                    if cmdr.accepted:
                        return {"events": times, "commands": log, "reentrant_subscriber": plan,
                                "failure": "%s issued by a subscriber from inside the %s notification of step() was accepted; the step had "
                                           "not returned, so the simulator was running and the command must be refused" % cmdr.accepted[0]}
                    if c == "end_replication":
                        t0 = _t.time()
                        while sim.run_state != RunState.ENDED and _t.time() - t0 < 2.0:
                            _t.sleep(0.01)
                    if refused:
                        after = (sim.run_state, sim.replication_state, sim.simulator_time, sim.eventlist().size(), len(rec.got) if rec else 0)
                        if after != before:
                            return {"events": times, "commands": log,
                                    "failure": "refused %s changed (run state, replication state, clock, pending, notifications) from %s to %s" % (c, before, after)}
                    elif ended and c in ("start", "step", "stop", "run_up_to", "run_up_to_including"):
                        return {"events": times, "commands": log, "failure": "%s was accepted after the replication had ended" % c}
                    if c == "end_replication" and (sim.run_state != RunState.ENDED or sim.replication_state != ReplicationState.ENDED):
                        return {"events": times, "commands": log,
                                "failure": "2 s after end_replication() the simulator reports %s / %s instead of ENDED" % (sim.run_state, sim.replication_state)}
                    g = grammar(rec.got, warm) if rec else None
                    if g:
                        return {"events": times, "commands": log, "failure": g}
                    if sim.replication_state == ReplicationState.ENDED:
                        if sim.run_state != RunState.ENDED:
                            return {"events": times, "commands": log, "failure": "replication ENDED but run state %s" % sim.run_state}
                        if [n for n, _ in rec.got].count("END_REPLICATION_EVENT") != 1:
                            return {"events": times, "commands": log, "failure": "replication ENDED but END_REPLICATION notified %d times"
                                    % [n for n, _ in rec.got].count("END_REPLICATION_EVENT")}
                        t0 = _t.time()
                        while any(th.name == name and th.is_alive() for th in threading.enumerate()) and _t.time() - t0 < 2.0:
                            _t.sleep(0.01)
                        if any(th.name == name and th.is_alive() for th in threading.enumerate()):
                            return {"events": times, "commands": log, "failure": "the run thread is still alive 2 s after the replication ended"}
        finally:
            try:
                with contextlib.redirect_stdout(out):
                    sim.cleanup()
            except Exception:
                pass
    return None


def illegal_scheduling_sweep():
    """BOUNDED: requests to schedule in the past / with a negative or NaN delay at rounding-sensitive clocks are refused
    with DSOLError and leave the pending events unchanged (float and Duration clocks)."""
    import io
    import contextlib
    from pydsol.core.simulator import DEVSSimulatorFloat, DEVSSimulatorDuration
    from pydsol.core.model import DSOLModel
    from pydsol.core.experiment import SingleReplication
    from pydsol.core.units import Duration
    from pydsol.core.utils import DSOLError
    problems = []

    def run(simcls, mk, clocks, delays, end):
        class M(DSOLModel):
            def construct_model(self):
                for c in clocks:
                    self.simulator.schedule_event_abs(mk(c), self, "probe")

            def noop(self):
                pass

            def probe(self):
                sim = self.simulator
                now = sim.simulator_time
                for d in delays:
                    before = sim.eventlist().size()
                    try:
                        sim.schedule_event_rel(mk(d), self, "noop")
                        problems.append("schedule_event_rel(%r) at clock %r was accepted" % (d, now))
                    except DSOLError:
                        if sim.eventlist().size() != before:
                            problems.append("refused schedule_event_rel(%r) at clock %r changed the pending events" % (d, now))
                    except Exception as e:
                        problems.append("schedule_event_rel(%r) at clock %r raised %s instead of DSOLError" % (d, now, type(e).__name__))
                for back in (1e-9, 1.0):
                    t = now - mk(back) if not isinstance(now, float) else now - back
                    if t == now:
                        continue
                    before = sim.eventlist().size()
                    try:
                        sim.schedule_event_abs(t, self, "noop")
                        problems.append("schedule_event_abs(clock - %r) at clock %r was accepted" % (back, now))
                    except DSOLError:
                        if sim.eventlist().size() != before:
                            problems.append("refused schedule_event_abs at clock %r changed the pending events" % (now,))
        sim = simcls("sweep")
        out = io.StringIO()
        try:
            with contextlib.redirect_stdout(out), contextlib.redirect_stderr(out):
                sim.initialize(M(sim), SingleReplication("r", mk(0.0), mk(0.0), mk(end)))
                sim.start()
                _wait_quiescent(sim, 10.0)
        finally:
            try:
                with contextlib.redirect_stdout(out):
                    sim.cleanup()
            except Exception:
                pass
    neg = [-5e-324, -1e-300, -1e-17, -1e-14, -1e-9, -0.5, -1.0, -1e300, float("nan"), float("-inf")]
    run(DEVSSimulatorFloat, float, [0.0, 1.0, 1000.0, 1e15], neg, 1e16)
    run(DEVSSimulatorDuration, lambda x: Duration(x, "s"), [0.0, 1000.0], [-1e-14, -1e-9, -1.0, float("nan")], 1e6)
    if problems:
        return {"failure": problems[0], "all": problems[:8]}
    return None


@replayer(r"(DEVSSimulator|Simulator|SimEvent)\..*")
def replay_simulator(rec):
    if rec.get("obligation") == "bounded-sweep-lifecycle":
        for seed in range(2 * DEPTH):
            f = lifecycle_search(seed=seed)
            if f:
                return {"reproduced": True, "input": f, "observed": f["failure"]}
        return {"reproduced": False, "note": "120 command sequences follow the protocol clauses"}
    if rec.get("obligation") == "bounded-sweep-illegal-scheduling":
        f = illegal_scheduling_sweep()
        return {"reproduced": bool(f), "input": f, "observed": f["failure"] if f else None,
                "note": "every illegal request refused with the pending events unchanged"}
    for seed in range(2 * DEPTH):
        f = simulator_search(seed=seed)
        if f:
            return {"reproduced": True, "input": f, "observed": f["failure"]}
    return {"reproduced": False, "note": "no failing model program / segmentation found (120 generated programs x 3 run modes)"}
