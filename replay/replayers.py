"""Replayers: obligation record -> native reproduction attempt on the real code."""
import itertools
import math
import random
import re
from fractions import Fraction

REGISTRY = []


def replayer(pattern):
    def deco(fn):
        REGISTRY.append((re.compile(pattern), fn))
        return fn
    return deco


def find(rec):
    q = rec.get("function") or ""
    for pat, fn in REGISTRY:
        if pat.fullmatch(q):
            return fn
    return None


# ------------------------------------------------------------------ model helpers
def mval(rec, key, default=None):
    m = rec.get("solver_model") or {}
    return m.get("@" + key, default)


def parse_num(s, default=None):
    """'3', '-1/2', 'fin(1/2)', 'O_float(fin(0))', 'O_int(3)', 'nan' -> python number"""
    if s is None:
        return default
    s = s.strip()
    m = re.fullmatch(r"O_float\((.*)\)", s)
    if m:
        v = parse_num(m.group(1))
        return float(v) if v is not None else default
    m = re.fullmatch(r"O_int\((.*)\)", s)
    if m:
        return int(parse_num(m.group(1)))
    m = re.fullmatch(r"O_bool\((.*)\)", s)
    if m:
        return m.group(1) == "True"
    m = re.fullmatch(r"fin\((.*)\)", s)
    if m:
        return parse_num(m.group(1))
    if s == "nan":
        return math.nan
    if s == "pinf":
        return math.inf
    if s == "ninf":
        return -math.inf
    if s in ("True", "False"):
        return s == "True"
    s = s.replace("(", "").replace(")", "").replace(" ", "")
    s = s.rstrip("?")
    try:
        if "/" in s:
            return float(Fraction(s))
        if "." in s:
            return float(s)
        return int(s)
    except Exception:
        return default


def exc_class_of(rec):
    """Exception class named by a noexc./raises. obligation."""
    m = re.match(r"(?:noexc|raises|excframe)\.([A-Za-z]+)", rec.get("obligation", ""))
    return m.group(1) if m else None


def exc_matches(e, name):
    return any(c.__name__ == name for c in type(e).__mro__)


# ------------------------------------------------------------------ C09 / C10 statistics
def candidate_sequences(n, rng, extra=()):
    n = max(0, min(int(n), 12))
    seqs = []
    for c in (0.0, 1.5, -2.0) + tuple(extra):
        seqs.append([c] * n)
    seqs.append([float(i) for i in range(n)])
    for _ in range(20):
        seqs.append([rng.choice([0.0, 1.0, 2.5, -1.0]) for _ in range(n)])
    for _ in range(10):
        seqs.append([rng.uniform(-5, 5) for _ in range(n)])
    return seqs


@replayer(r"(Tally|EventBasedTally|SimTally)\.(skewness|kurtosis|excess_kurtosis|variance|stdev|mean|confidence_interval|min|max|sum|n)")
def replay_tally_getter(rec):
    from pydsol.core.statistics import Tally
    rng = random.Random(1)
    meth = rec["function"].split(".")[1]
    want = exc_class_of(rec)
    n = parse_num(mval(rec, "self._n"), 3)
    args = []
    if meth == "confidence_interval":
        args = [parse_num(mval(rec, "arg:alpha"), 0.05)]
    elif meth in ("skewness", "kurtosis", "excess_kurtosis", "variance", "stdev"):
        args = [bool(parse_num(mval(rec, "arg:biased"), True))]
    ns = [n] + [k for k in range(0, 7) if k != n]
    for k in ns:
        for seq in candidate_sequences(k, rng):
            t = Tally("replay")
            for x in seq:
                t.register(x)
            try:
                r = getattr(t, meth)(*args)
            except Exception as e:
                if want is None or exc_matches(e, want):
                    return {"reproduced": True, "input": {"observations": seq, "call": meth, "args": args},
                            "observed": "%s: %s" % (type(e).__name__, e)}
    return {"reproduced": False, "note": "no failing observation sequence found (n<=6 candidates)"}


def tally_reference(seq):
    """Textbook statistics of a finite sequence in exact rational arithmetic (floats where
    roots are needed).  None = undefined."""
    from fractions import Fraction as F
    n = len(seq)
    xs = [F(x) for x in seq]
    ref = {"n": n, "sum": sum(xs, F(0)) if n else F(0),
           "min": min(xs) if n else None, "max": max(xs) if n else None}
    if n == 0:
        ref.update(mean=None, var_b=None, var_u=None, skew_b=None, skew_u=None, kurt_b=None, kurt_u=None,
                   exk_b=None, exk_u=None)
        return ref
    mu = ref["sum"] / n
    m2 = sum((x - mu) ** 2 for x in xs)
    m3 = sum((x - mu) ** 3 for x in xs)
    m4 = sum((x - mu) ** 4 for x in xs)
    ref["mean"] = mu
    ref["var_b"] = m2 / n
    ref["var_u"] = m2 / (n - 1) if n > 1 else None
    vb = float(m2 / n)
    ref["skew_b"] = (float(m3 / n) / vb ** 1.5) if (n > 1 and m2 > 0) else None
    ref["skew_u"] = (ref["skew_b"] * math.sqrt(n * (n - 1)) / (n - 2)) if (n > 2 and m2 > 0) else None
    ref["kurt_b"] = (float(m4 / n) / vb / vb) if (n > 2 and m2 > 0) else None
    vu = float(m2 / (n - 1)) if n > 1 else None
    ref["kurt_u"] = (float(m4 / (n - 1)) / vu / vu) if (n > 3 and m2 > 0) else None
    ref["exk_b"] = ref["kurt_b"] - 3.0 if ref["kurt_b"] is not None else None
    ref["exk_u"] = ((n - 1) / (n - 2) / (n - 3)) * ((n + 1) * ref["exk_b"] + 6) if (n > 3 and m2 > 0) else None
    return ref


def close(a, ref, tol=1e-7):
    if ref is None:
        return isinstance(a, float) and math.isnan(a)
    if isinstance(a, float) and math.isnan(a):
        return False
    r = float(ref)
    return abs(a - r) <= tol * max(1.0, abs(r))


def tally_mismatch(t, seq):
    ref = tally_reference(seq)
    got = {"n": t.n(), "sum": t.sum(), "min": t.min(), "max": t.max(), "mean": t.mean(),
           "var_b": t.variance(), "var_u": t.variance(False), "skew_b": t.skewness(),
           "skew_u": t.skewness(False), "kurt_b": t.kurtosis(), "kurt_u": t.kurtosis(False),
           "exk_b": t.excess_kurtosis(), "exk_u": t.excess_kurtosis(False)}
    for k in got:
        if k == "n":
            if got[k] != ref[k]:
                return k, got[k], ref[k]
        elif not close(got[k], ref[k]):
            return k, got[k], (float(ref[k]) if ref[k] is not None else None)
    return None


@replayer(r"(Tally|EventBasedTally|SimTally)\.(register|initialize|__init__)")
def replay_tally_register(rec):
    """A refuted invariant/postcondition of register/initialize: search (model guided by n,
    bounded) for a history whose getters disagree with the exact reference, or that raises
    an exception the contract does not admit."""
    from pydsol.core.statistics import Tally
    rng = random.Random(2)
    n = parse_num(mval(rec, "self._n"), 2) or 0
    want = exc_class_of(rec)
    ns = [min(int(n) + 1, 8)] + [k for k in range(1, 8)]
    for k in ns:
        for seq in candidate_sequences(k, rng):
            for reinit in (False, True):
                t = Tally("replay")
                try:
                    if reinit:
                        t.register(42.0)
                        t.register(-7.0)
                        t.initialize()
                    for x in seq:
                        t.register(x)
                    mm = tally_mismatch(t, seq)
                except Exception as e:
                    if want is None or exc_matches(e, want):
                        return {"reproduced": True, "input": {"observations": seq, "reinitialised_before": reinit},
                                "observed": "%s: %s" % (type(e).__name__, e)}
                    continue
                if mm is not None and want is None:
                    return {"reproduced": True, "input": {"observations": seq, "reinitialised_before": reinit},
                            "observed": "getter %s returned %r, exact reference %r" % mm}
    return {"reproduced": False, "note": "no failing history found (n<=7 candidate sequences)"}
