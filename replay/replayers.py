"""Replayers: obligation record -> native reproduction attempt on the real code."""
import itertools
import math
import random
import re
from fractions import Fraction

REGISTRY = []


def replayer(pattern):
    def deco(fn):
        REGISTRY.append((re.compile(pattern), fn))
        return fn
    return deco


def find(rec):
    q = rec.get("function") or ""
    for pat, fn in REGISTRY:
        if pat.fullmatch(q):
            return fn
    return None


# ------------------------------------------------------------------ model helpers
def mval(rec, key, default=None):
    m = rec.get("solver_model") or {}
    return m.get("@" + key, default)


def parse_num(s, default=None):
    """'3', '-1/2', 'fin(1/2)', 'O_float(fin(0))', 'O_int(3)', 'nan' -> python number"""
    if s is None:
        return default
    s = s.strip()
    m = re.fullmatch(r"O_float\((.*)\)", s)
    if m:
        v = parse_num(m.group(1))
        return float(v) if v is not None else default
    m = re.fullmatch(r"O_int\((.*)\)", s)
    if m:
        return int(parse_num(m.group(1)))
    m = re.fullmatch(r"O_bool\((.*)\)", s)
    if m:
        return m.group(1) == "True"
    m = re.fullmatch(r"fin\((.*)\)", s)
    if m:
        return parse_num(m.group(1))
    if s == "nan":
        return math.nan
    if s == "pinf":
        return math.inf
    if s == "ninf":
        return -math.inf
    if s in ("True", "False"):
        return s == "True"
    s = s.replace("(", "").replace(")", "").replace(" ", "")
    s = s.rstrip("?")
    try:
        if "/" in s:
            return float(Fraction(s))
        if "." in s:
            return float(s)
        return int(s)
    except Exception:
        return default


def exc_class_of(rec):
    """Exception class named by a noexc./raises. obligation."""
    m = re.match(r"(?:noexc|raises|excframe)\.([A-Za-z]+)", rec.get("obligation", ""))
    return m.group(1) if m else None


def exc_matches(e, name):
    return any(c.__name__ == name for c in type(e).__mro__)


# ------------------------------------------------------------------ C09 / C10 statistics
def candidate_sequences(n, rng, extra=()):
    n = max(0, min(int(n), 12))
    seqs = []
    for c in (0.0, 1.5, -2.0) + tuple(extra):
        seqs.append([c] * n)
    seqs.append([float(i) for i in range(n)])
    for _ in range(20):
        seqs.append([rng.choice([0.0, 1.0, 2.5, -1.0]) for _ in range(n)])
    for _ in range(10):
        seqs.append([rng.uniform(-5, 5) for _ in range(n)])
    return seqs


@replayer(r"(Tally|EventBasedTally|SimTally)\.(skewness|kurtosis|excess_kurtosis|variance|stdev|mean|confidence_interval|min|max|sum|n)")
def replay_tally_getter(rec):
    from pydsol.core.statistics import Tally
    rng = random.Random(1)
    meth = rec["function"].split(".")[1]
    want = exc_class_of(rec)
    n = parse_num(mval(rec, "self._n"), 3)
    args = []
    if meth == "confidence_interval":
        args = [parse_num(mval(rec, "arg:alpha"), 0.05)]
    elif meth in ("skewness", "kurtosis", "excess_kurtosis", "variance", "stdev"):
        args = [bool(parse_num(mval(rec, "arg:biased"), True))]
    ns = [n] + [k for k in range(0, 7) if k != n]
    for k in ns:
        for seq in candidate_sequences(k, rng):
            t = Tally("replay")
            for x in seq:
                t.register(x)
            try:
                r = getattr(t, meth)(*args)
            except Exception as e:
                if want is None or exc_matches(e, want):
                    return {"reproduced": True, "input": {"observations": seq, "call": meth, "args": args},
                            "observed": "%s: %s" % (type(e).__name__, e)}
    return {"reproduced": False, "note": "no failing observation sequence found (n<=6 candidates)"}
