"""Record, for every function of /repo's current tree, the names of its locals in order of first binding
(baseline/locals.json).  The sidecar specs (loop invariants, ghost assertions) name locals; the engine uses this record to
follow a pure renaming of a local.  Run on the unchanged tree together with --record-baseline."""
import json
import os
import sys
VERIF = os.path.dirname(os.path.dirname(os.path.abspath(__file__)))
sys.path.insert(0, VERIF)
from pyvc.source import Table

table = Table()
out = {}
for ci in table.classes.values():
    for f in list(ci.methods.values()) + list(ci.setters.values()):
        names = f.store_names()
        if names:
            out[f.qual] = names
for f in table.functions.values():
    names = f.store_names()
    if names:
        out[f.qual] = names
os.makedirs(os.path.join(VERIF, "baseline"), exist_ok=True)
with open(os.path.join(VERIF, "baseline", "locals.json"), "w") as fh:
    json.dump(out, fh, indent=0, sort_keys=True)
print("recorded the locals of %d functions" % len(out))
