#!/bin/bash
# usage: seed_recheck.sh <seed name> <property> -- re-run a check against a stored seeded change (scratch worktree of /repo HEAD)
NAME=$1; P=$2
WT=/tmp/wt_re_$NAME
git -C /repo worktree remove --force $WT 2>/dev/null
git -C /repo worktree add -q $WT HEAD
git -C $WT apply /verif/seeded/$NAME/patch.diff 2>/dev/null || echo "PATCH DOES NOT APPLY"
cd /verif
PYVC_REPO=$WT ./check $P > /tmp/recheck_$NAME.log 2>&1; RC=$?
echo "recheck $NAME $P exit=$RC violations=$(grep -c '^VIOLATION' /tmp/recheck_$NAME.log) :: $(grep -m2 '^VIOLATION\|^UNDECIDED\|^CHECKER' /tmp/recheck_$NAME.log | cut -c1-160 | tr '\n' '|')"
git -C /repo worktree remove --force $WT
