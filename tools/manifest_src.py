SETUP = "python3-vt -m compileall -q pyvc contracts replay tools"
NOTES = ("Contract-based deductive verification of the real source: pyvc (AST -> z3 VC generator with sidecar contracts under "
         "contracts/). See DESIGN.md. Exit codes of ./check: 0 held, 1 violation, 2 undecided, 3 checker error.")
COMMON_NOTE = ("Trusted: pyvc itself (VC generator), z3/cvc5, the Python semantics stated in DESIGN 2.3 (mathematical ints, floats "
               "idealised as reals + IEEE special values, no rounding), dependency contracts of DESIGN 4, induction over histories as "
               "meta-theory. Partial correctness (no termination).")
NOT_BUILT = "check not built yet (build in progress, see DESIGN.md section 10)"
CHECKS = [
 {"property_id": "C09",
  "text": "Every function of Counter and Tally (register, initialize, all getters, confidence_interval) is verified against a contract "
          "whose representation invariant ties the stored moments to the ghost observation sequence (power sums, min/max); each getter's "
          "postcondition is the documented formula and its raises-clause is empty (totality, NaN where undefined). Holds for all "
          "observation histories by induction over the invariant; all inputs per call are universally quantified.",
  "design_ref": "DESIGN.md section 6 C09",
  "note": COMMON_NOTE + " Rounding accuracy ('to floating-point accuracy') is NOT decided: arithmetic is over the reals. Observations are "
          "assumed finite (precondition).",
  "technique": "deductive verification: representation invariant + ghost observation state, obligations discharged by z3 (exact field-identity step + QF_NRA)"},
 {"property_id": "C10",
  "text": "Every function of WeightedTally and TimestampWeightedTally is verified against a contract whose representation invariant ties "
          "the stored sums to ghost sums over the positively weighted observations (sum w, sum wx, sum wx^2), min/max over all values; "
          "zero-weight frame clause; getters total with the documented formulas; timestamped variant: total weight telescopes to "
          "last-first, the weighted sum accumulates value*(elapsed time), earlier timestamps rejected with strict frame, inactive => only "
          "last value changes. All histories by induction over the invariant.",
  "design_ref": "DESIGN.md section 6 C10",
  "note": COMMON_NOTE + " Rounding not decided (reals). That a finite sum of rectangle areas is the integral of the step function is the "
          "definition used. Observations/weights/timestamps are plain finite int/float (not Quantity instances).",
  "technique": "deductive verification: representation invariant + ghost weighted sums, obligations discharged by z3 (exact field-identity step + QF_NRA)"},
 {"property_id": "C08",
  "text": "EventProducer.__init__/add_listener/remove_listener/remove_all_listeners (4 forms, loop invariant)/has_listeners/fire_event/"
          "fire_timed_event/fire/fire_timed and the Event/TimedEvent constructors are verified against contracts over the abstract view "
          "subs: EventType -> sequence of listeners (whole-map postconditions, duplicate-free non-empty lists as representation invariant). "
          "Delivery: loop invariant with a ghost sequence of notified receivers = prefix of the snapshot taken at the moment of firing, "
          "loop postcondition = the whole snapshot in order; notify is an abstract callback that may re-enter the producer arbitrarily "
          "(heap havoc). Metadata validation: normal return of the constructor implies the declared-keys/declared-types rule.",
  "design_ref": "DESIGN.md section 6 C08",
  "note": COMMON_NOTE + " Assumed sequence lemmas (axiom set 'seqref': nodup/append/remove-first on Seq(ref)); listeners and event types "
          "compare by identity; listeners use only the public API; 'exactly the declared keys' from len-equality + inclusion is the "
          "finite-set pigeonhole step (not re-proved by SMT). Sequence obligations left open by z3 are discharged by cvc5.",
  "technique": "deductive verification: abstract map/sequence view, snapshot loop invariant with ghost delivery sequence, callback contract; z3 + cvc5"},
 {"property_id": "C01",
  "text": "All public operations of EventListHeap are verified against contracts over the abstract view 'set of entries (time,-priority,id,event)': "
          "representation invariant = binary-heap order on the array + well-formed, duplicate-free entries; add/pop/remove/clear state the whole "
          "view (exactly that entry enters/leaves, every other stays) and re-establish the invariant; peek/pop return the root which is the "
          "minimum of all pending entries (lemma heap_root_min, strong induction, SMT); size/is_empty/contains equal the view's. SimEvent "
          "comparison operators: strict total order agreeing with the key order (lemma over the operator contracts). All histories by "
          "induction over the invariant.",
  "design_ref": "DESIGN.md section 6 C01",
  "note": COMMON_NOTE + " Assumed: heapq.heappush/heappop/heapify contracts; sequence membership/remove-first lemmas over the heap array; "
          "events are immutable while listed; valid events have non-NaN times of one time class (float model; Duration/int times embed).",
  "technique": "deductive verification: heap representation invariant against an abstract set view, inductive min-lemma, dependency contracts for heapq; z3 + cvc5"},
 {"property_id": "C12",
  "text": "Every method of MersenneTwister is verified against a contract over the abstract generator state S of its private random.Random "
          "(seed: S=Seed(k); each draw: result is a fixed function of Out(S), S'=Next(S); save/restore: identity on S). Lemma programs over "
          "these contracts prove: twin streams with equal state stay equal under every draw (one step; interleavings by induction), equal "
          "seeds give equal states, reset replays, restore continues as after the save, operations on one stream leave another's state "
          "untouched; next_float in [0,1), lo<=next_int<=hi for every lo<=hi (over the reals). Ownership of the generator object is a "
          "frame scan over the AST.",
  "design_ref": "DESIGN.md section 6 C12",
  "note": COMMON_NOTE + " Assumed contract of random.Random (abstract state, Out in [0,1)). next_int range over the reals: float rounding "
          "for ranges beyond 2^53 is not decided here.",
  "technique": "deductive verification: contracts over an abstract RNG state + lemma programs (twin/reset/restore/independence) discharged by z3"},
 {"property_id": "C13",
  "text": "SimpleStreamUpdater.update_seed: postcondition seed' = original_seed + r*(1000037 + jhash(name)) with jhash the axiomatised "
          "process-independent string hash computed by the verified loop in _hash_code; determinism-effect obligation (no process-varying "
          "primitive such as hash(str)); rejected inputs (ill-typed, negative r) leave the stream untouched (strict frame). "
          "StreamSeedUpdater.update_seed: listed stream gets table[name][r], r beyond the list / negative / ill-typed is refused without "
          "changing the stream, unlisted stream is delegated to the fallback updater exactly once (no KeyError). update_seeds: loop "
          "invariant gives every stream the seed determined by its own (name, original seed, r) - independent of listing order.",
  "design_ref": "DESIGN.md section 6 C13",
  "note": COMMON_NOTE + " Streams in one dict are distinct objects with their own generators; the fallback updater is an interface "
          "contract (user supplied updaters are outside the closed world); effect catalogue of primitives is trusted.",
  "technique": "deductive verification: functional postconditions + determinism effect check + loop invariant; z3 (strings) + cvc5"},
 {"property_id": "C18",
  "text": "set_value of every parameter class (base, int, float, str, bool, quantity, selection list / unit, map) is verified against 'read-only or "
          "invalid for the declared rule => raises with the value unchanged (strict frame); otherwise value := argument and the rule "
          "holds'; modifies = {_value} so the default never changes, and a frame scan shows default/read-only are constructor-only. "
          "Map get/remove by (dotted) key: the non-dotted case is whole-view (exactly that entry), the dotted case recurses through the "
          "callee contract. Model level: add/set/get_parameter contracts and the lemma 'get after set returns the value set' (closed-world "
          "dispatch over all parameter classes).",
  "design_ref": "DESIGN.md section 6 C18",
  "note": COMMON_NOTE + " The constructors of the Int / Float / Str / Bool / Quantity parameters are verified (the quantity one also establishes the "
          "class invariant its set_value relies on) against 'TypeError / ValueError leave the "
          "parent map unchanged (no half-built child registered: fix 6009138); otherwise the value and the default satisfy the "
          "declared rule and the parameter is registered under its key' -- over an ASSUMED contract of the base constructor "
          "InputParameter.__init__ (its call of parent.add needs frame reasoning the solvers leave open) and of the selection-list / unit / map "
          "constructors (bounded sweep); of "
          "InputParameterMap.add the child-order clauses (assumed + bounded sweep). InputParameterQuantity.set_value IS verified "
          "(instance of the parameter's quantity class, bounds on the SI value whatever the unit, over the Quantity model of C17 and "
          "a class invariant whose fields are constructor-only). Values are plain python values except for the quantity parameter. Strings in "
          "sequences/dict keys are modelled by ids (z3 5.1 is unsound on sequences of strings).",
  "technique": "deductive verification: per-class validity invariant + strict frames, closed-world dispatch, lemma program for the model round trip; z3 + cvc5"},
 {"property_id": "C16",
  "text": "Table invariant TInv as ground obligations over the live module data, one per entry, exhaustive: every _mul entry has "
          "sig(C)=sig(A)+sig(B), every _div entry sig(C)=sig(A)-sig(B), every class's sisig() equals its _sidict over SIUNITS "
          "(41 classes, all entries incl. the ones filled in by the module-level loop). Verified symbolically for a generic receiver "
          "class (see C17): adding, subtracting or ordering quantities of different types is refused (ValueError / TypeError "
          "exactly when the dynamic classes differ), same-type + - and the six comparisons act on the SI values, scaling by a plain "
          "number multiplies / divides the SI value; the product / quotient of two quantities whose class pair has an entry in the "
          "conversion table is a new object of exactly the class the table prescribes, in its base unit, with SI value = product / "
          "quotient of the SI values (ZeroDivisionError exactly for a zero divisor) -- together with TInv this is the dimensional "
          "soundness of named results. Pairs WITHOUT a table entry give a generic SI value whose SI value is the product / quotient "
          "and whose signature is the elementwise sum / difference of the operands' class signatures (fall-back branches of "
          "Quantity.__mul__/__truediv__ over Quantity.asSI and SI.__mul__/__truediv__; `list(map(lambda x, y: x + y, ...))` executed "
          "as an elementwise sequence operation); SI.__new__/__init__/_val and SI.as_quantity -- TypeError for a class that is not a "
          "quantity class, ValueError exactly when the signatures differ, otherwise a new object of the requested class with the same "
          "SI value -- are verified as well. NOT verified: the unit-string parser / printer (SI.str_to_sisig, siunit: abstract "
          "contracts); a BOUNDED round-trip sweep prints and parses every signature of a bounded set in all formats. Further BOUNDED "
          "stand-ins: the real * and / on all 41x41 ordered class pairs; operands are not modified and results do not alias "
          "(sequences are values in the model, so the signature list that SI._val shares by design is invisible to the proof).",
  "design_ref": "DESIGN.md section 6 C16",
  "category": "proof",
  "note": COMMON_NOTE + " Quantity construction is by the verified contracts of __new__ / __init__ (see C17). Conversion tables and "
          "class signatures are uninterpreted functions of the class id constrained only by facts that the exhaustive TInv / UInv "
          "ground obligations establish on the same tree (entries are quantity classes, signatures have nine exponents, base unit "
          "factor 1). Quantity.sisig() (classmethod over _sidict) is interpreted as the class signature; its body is covered by TInv. "
          "The generic base class Quantity itself is never an operand (precondition). float.__new__ is assumed.",
  "technique": "ground obligations over the live conversion tables (exhaustive evaluation); deductive verification of refusal / same-type / scaling / product / quotient / conversion clauses for a generic receiver class; bounded native stand-ins for unit strings, aliasing and a cross-check of all class pairs"},
 {"property_id": "C17",
  "text": "Quantity._val/__add__/__sub__/__neg__/__abs__/__eq__/__ne__/__lt__/__le__/__gt__/__ge__/as_unit/si and scaling by a plain "
          "number (* and /) are verified ONCE for a receiver of any of the 41 quantity classes (generic receiver; the methods are "
          "inherited unchanged, calls on self are dispatched closed-world): the result's SI value is the sum / difference / negation / "
          "absolute value / product / quotient of the SI values, it keeps the left operand's unit and class, comparisons are those "
          "of the SI values, another quantity type is refused (ValueError / TypeError), as_unit copies the SI value (bit-identical: "
          "no arithmetic except * factor(base unit) = * 1.0) for every declared target unit. Over a ghost SI value, the unit table of "
          "the dynamic class as an uninterpreted map constrained only by the data invariant below. "
          "Data invariant UInv as ground obligations over the live module data, exhaustive over 41 classes x all declared units: base "
          "unit declared with factor exactly 1; every factor a finite non-zero number; every unit has a description; every display "
          "unit is a str and keys are declared units; alias spellings (same display string / same description) share one factor; "
          "compound units a/b agree with the component units of the quantities given by the SI signature (unparsable names are "
          "listed as not checked); every name in __all__ exists.",
  "design_ref": "DESIGN.md section 6 C17",
  "category": "proof",
  "note": COMMON_NOTE + " Construction is verified as well: Quantity.__new__ (SI value = value * factor of the given unit, of the "
          "base unit when none is given; ValueError exactly for an undeclared unit or -- with a unit -- a value that is not exactly "
          "float / int) and Quantity.__init__ (display unit); every construction inside the operators applies these two contracts. "
          "displayvalue is verified (displayvalue * factor(unit) = SI value) and a lemma over the contracts composes the statement's "
          "chain: construct with (v, u) -> SI value v * f(u), display value v (over the reals), unit u; as_unit(u2) keeps the SI "
          "value; ordering against a third quantity is unchanged by re-expression; a sum keeps the left unit. Assumed: "
          "float.__new__(cls, x) yields a new object of class cls with float value x. str() is only in the BOUNDED sweep. SI values are finite reals in the model; bit-identity claims are exact only where no arithmetic "
          "happens (as_unit); sums are equal over the reals and swept natively for rounding (same-unit and mixed-unit operands).",
  "technique": "deductive verification of the inherited operators for a generic receiver class over a ghost SI value; ground obligations over the live unit tables; bounded native sweeps; z3"},
 {"property_id": "C02",
  "text": "SimEvent.__init__/execute, DEVSSimulator.schedule_event/_now/_rel/_abs, cancel_event, _run (loop invariant), _step_impl "
          "are verified against contracts: scheduling in the past / with a negative delay / at NaN raises DSOLError with the pending "
          "set unchanged, otherwise exactly the new entry is added (whole-view postconditions over the C01 event-list contracts); the "
          "run loop keeps the invariant (event-list well-formed, every pending time >= clock, clock never decreases); a ghost statement "
          "at the handler invocation asserts for EVERY executed event: clock == its time, it is the minimum of all pending entries "
          "(time, then higher priority, then creation order), it lies within the horizon, it has left the pending set (hence runs once "
          "per scheduling). Handlers are callbacks with a rely condition (any use of the public scheduling API, any exception).",
  "design_ref": "DESIGN.md section 6 C02",
  "note": COMMON_NOTE + " Float clock model = reals + NaN/inf (an int clock embeds; no rounding). The Duration clock is NOT verified "
          "symbolically (Quantity operators are outside the engine subset): the Duration TypeError defect was found and repaired "
          "natively. Assumed: handlers/listeners use only the public API (rely condition), listeners of the simulator's own "
          "notifications do not schedule/cancel or raise, SimEvent id counter contract, sequential execution of the run loop.",
  "technique": "deductive verification: loop invariant + ghost trace assertions at the handler call, callback rely conditions; z3 + cvc5"},
 {"property_id": "C03",
  "text": "Postconditions of the run loop at every normal exit (clock at the bound, nothing pending within the horizon, replication "
          "marked ending iff the bound reached the replication end, otherwise replication state untouched = resumable), every "
          "executed event within the horizon (ghost assertion), run_up_to/run_up_to_including/start refuse (DSOLError, strict frame) "
          "unless startable and clock <= bound <= replication end, step executes at most one event and never one beyond the "
          "replication end; the clock never moves backwards in any of them.",
  "design_ref": "DESIGN.md section 6 C03",
  "note": COMMON_NOTE + " The composition statement (any segmentation yields the same trace as one run) is NOT proved as a lemma: "
          "it needs deterministic handlers as a function, which the relational callback contract does not provide; only the "
          "per-segment postconditions are proved. Thread hand-off not modelled (commands verified at quiescence).",
  "technique": "deductive verification: run-loop postconditions, command guards and strict refusal frames; z3 + cvc5"},
 {"property_id": "C04",
  "text": "Part (a) only, restricted to guards and frames: _check_start, _start_impl, start, run_up_to, run_up_to_including, stop, "
          "step are verified to raise DSOLError exactly when the documented run-state / replication-state rule forbids the command, "
          "and a refused command changes NO field of any object (strict frame obligation per field, so nobody is notified either); "
          "accepted commands reach the documented state. end_replication (base and DEVS): replication state ENDING, clock moved to "
          "the replication end if it was earlier and never backwards, pending events discarded, and the run thread woken exactly once "
          "(ghost wake-up counter on the worker object, so that it can report ENDED and END_REPLICATION). BOUNDED stand-in for the "
          "rest of the statement (notification-stream grammar, ENDED after the end, refusals after the end, run thread gone, "
          "cleanup / re-initialise): native lifecycle sweep over random command sequences at quiescence.",
  "design_ref": "DESIGN.md section 6 C04",
  "category": "proof",
  "note": "NOT covered: the well-formedness of the notification stream (start/stop alternation, warm-up once, end once and last), "
          "initialize/cleanup/end_replication, the run thread body, and part (b) (interleavings of a command with the run thread: no "
          "thread semantics in this family). " + COMMON_NOTE,
  "technique": "deductive verification: guard postconditions and strict exceptional frames of the lifecycle commands; z3"},
 {"property_id": "C05",
  "text": "The run loop's except-branches are verified for the log/warn-and-continue and warn-and-pause strategies: the loop invariant "
          "and all ghost assertions hold again after a failing handler exactly as after a returning one (same rely condition), "
          "warn-and-pause requests STOPPING so the loop exits with the replication state untouched; the loop's call of execute is checked "
          "against the interface contract of SimEventInterface.execute (a user-defined event class may fail with any Exception), "
          "SimEvent.execute itself raises only DSOLError; Simulator.step raises only the DSOLError of its guards (a failing handler or the message construction cannot "
          "escape as another exception type), ends STOPPED with the invariant intact and at most one event executed.",
  "design_ref": "DESIGN.md section 6 C05",
  "note": COMMON_NOTE + " WARN_AND_END / WARN_AND_EXIT are outside the statement (precondition). Resuming after a pause executes the "
          "remainder: follows from the C03 per-segment postconditions, not separately proved.",
  "technique": "deductive verification: exceptional paths preserve the loop invariant; raises-clauses of step/execute; z3 + cvc5"},
 {"property_id": "C14",
  "text": "draw() of 18 of the 19 concrete distribution classes (all but DistNormalTrunc), DistNormal._next_gaussian, the stream "
          "(re)pointing methods and the constructors of eighteen classes (all but DistNormalTrunc; Geometric / NegBinomial including the "
          "rejection of p = 1 by log(1 - p); Beta / Erlang / Pearson5 / Pearson6 including the inner gammas built on the same "
          "stream): TypeError exactly for ill-typed arguments, ValueError exactly outside the documented domain -- NaN included, fix 184bf62 -- and otherwise the "
          "parameter invariant that draw() requires) are verified against contracts over the C12 stream contract (one next_float = "
          "one step of the abstract generator, value in [0,1) including exactly 0): totality (raises nothing: every log/sqrt/pow/"
          "division site is an obligation), support (postcondition), frame = only the stream state (and the normal's own cache) "
          "changes, effects = deterministic, so equal parameters on equal stream states give equal draws and instances never influence "
          "each other; loops (binomial, negative binomial, Erlang, gamma's bounded rejection loops, Poisson, polar normal) by "
          "invariants; re-pointing establishes that every inner distribution draws from the new stream and the cached gaussian is dropped.",
  "design_ref": "DESIGN.md section 6 C14",
  "note": COMMON_NOTE + " 15 obligations are refuted and natively reproduced (uniform exactly 0.0, p = 0): they are listed as "
          "known findings, not repaired. Not under contract: DistNormalTrunc (accuracy guards of erf_inv), the Quantity-valued wrappers; infinite parameters are outside the "
          "preconditions; float overflow for absurd parameters (Weibull alpha = 1e-300) is not modelled. math functions are axiomatised (domain/sign/monotonicity), values over the reals.",
  "technique": "deductive verification: totality/support/frame contracts per sampling algorithm over an abstract stream, loop invariants; z3"},
 {"property_id": "C07",
  "text": "Determinism effect obligations: for every function on the run path (run loop, scheduling, event list, SimEvent, "
          "pub/sub, streams, seed updaters, all draw()/_set_stream of the 19 distributions, all register/notify/_fire_events/getters "
          "of the statistics classes) the whole call closure (resolved by name over the class table, conservative) is scanned for "
          "process-varying primitives (hash, id, set iteration, time.*, os.urandom, unseeded random): one ground obligation per "
          "root, exhaustive over the closure; lemma (SMT): the event order depends on ids only through their relative order, so "
          "creation counters inherited from earlier activity do not matter. Delivery in subscription order is the C08 loop "
          "postcondition; event order the C01/C02 contracts; stream reproducibility C12.",
  "design_ref": "DESIGN.md section 6 C07",
  "note": "Trusted: the effect catalogue of primitives and the meta-theorem that a composition of functional primitives is functional; "
          "CPython determinism on one platform; the functional contracts of C01/C02/C08/C12 it builds on. Bit-identity of float "
          "statistics is a consequence of determinism of float operations on one platform, not separately proved. "
          "Wall-clock use in the start/stop waits and the clock-based default seed are allow-listed with reasons.",
  "technique": "effect contracts: syntactic determinism-effect check over the call closure (ground obligations) + SMT lemma on id renumbering"},
 {"property_id": "C11",
  "text": "All four families (EventBasedCounter/Tally/WeightedTally/TimestampWeightedTally, SimCounter/SimTally/SimWeightedTally/"
          "SimPersistent): register/initialize/notify/_fire_events (and end_observations on event-producing receivers) and the "
          "constructors are verified against contracts over the C09 representation invariants and the C08 producer view: "
          "notify of a subscribed data event = exactly one register of the payload, WARMUP = initialize (n = 0, all earlier "
          "observations forgotten), any other event = nothing changes; every operation keeps the invariant, so the getters "
          "(C09 contracts) report the plain statistic of the observations since the last warm-up; lemma: [data, WARMUP, data] leaves "
          "exactly the last observation; lemma: a MAX_PRIORITY warm-up event precedes every lower-priority event of the same time "
          "(C01 order). Construction: subscribed to the simulator's WARMUP_EVENT, data types = {DATA_EVENT}, registered in the model "
          "under its key (DSOLModel.add/get_output_statistic contracts + lemma: retrievable). Published values: ground obligation "
          "over all seven _fire_events functions -- every payload expression is literally the documented query call, in the documented "
          "order -- plus proved _fire_events contracts (queries total under the invariant, statistic unchanged by publication). "
          "Without listeners the event-based statistics change only their own accumulators (nohavoc obligations). "
          "SimPersistent.notify: a TIMESTAMP_DATA event is an observation at its own timestamp, an event of a subscribed type an "
          "observation at the simulator clock, WARMUP re-opens and empties the statistic, END_REPLICATION closes it at the clock "
          "(total weight = clock - first observation, last value weighted up to the clock: with the C10 getter contracts this is "
          "the time average from the first observation after warm-up to the replication end); construction also subscribes to "
          "END_REPLICATION. BOUNDED stand-in shared with C06: native sweep with absolute oracles (tally/counter = observations "
          "at or after warm-up; persistent = time integral / average to the replication end) over generated models, non-zero "
          "replication start times included.",
  "design_ref": "DESIGN.md section 6 C11 and Part II section 15",
  "note": COMMON_NOTE + " listen_to of the four simulation statistics and construction with an initial producer AND event type are "
          "verified too (a producer given alone is refused by listen_to with a TypeError -- the documented default type is not "
          "applied; outside the statement, noted in DESIGN). NOT covered by proof (stated scope): Quantity-valued "
          "clocks / timestamps; rejection conditions of the timestamped notify are bounded from above (may_raise), only the "
          "unchanged-on-rejection frame is proved; that the simulator schedules the warm-up with maximum priority and fires END_REPLICATION after setting "
          "the clock (C06/C04 territory). Assumed (CB-stat): listeners of a statistic's own events do not call that statistic's "
          "mutators from inside notify; producers keep PWF across callbacks (C08); Event/TimedEvent fields and the statistic's key/"
          "simulator are constructor-only (frame scan obligation).",
  "technique": "deductive verification: dispatch contracts over representation invariants, callback frame assumptions, syntactic publication table; z3"},
 {"property_id": "C06",
  "text": "DEVSSimulator.initialize, Simulator.initialize, Simulator.cleanup and EventListHeap.clear are verified against contracts whose "
          "postconditions are the property statement: clock = replication start, run/replication state INITIALIZED, new run thread "
          "object, replication and model recorded; at the call of construct_model (ghost assertions) the event list is empty, the "
          "clock already at the start, the model's statistics map empty (this obligation failed before the fix 7c62f5f) and -- for a "
          "simulator that had been initialised before -- the listener table empty; exactly one warm-up entry of MAX_PRIORITY at the "
          "warm-up time is added on top of what the model scheduled (whole-list postcondition); refusal while running raises DSOLError "
          "with no field of any existing object changed (checked before the event list is cleared). construct_model and the initial "
          "methods are callbacks with the simulator rely condition. The postconditions are functions of the arguments only, i.e. "
          "independent of the prior history. BOUNDED stand-in (not counted as proved) for the composed statement 'second replication "
          "== the same replication on a brand-new simulator and model': native sweep over generated seeded model programs x "
          "histories {fresh, initialised, stepped, paused, ended, paused by a failing handler} comparing trace, clock, statistics, "
          "pending events and notification stream, with an absolute warm-up oracle for the statistics.",
  "design_ref": "DESIGN.md section 6 C06 and Part II section 15",
  "note": COMMON_NOTE + " Identical event sequences / statistics of two replications is the composition of this canonical start "
          "state with determinism (C07) and the functional contracts C01/C02/C08/C12 -- the composition is meta-theory plus the "
          "bounded sweep, not an SMT obligation. Threading (worker thread creation, wake-up, wall-clock waits) is assumed not to touch "
          "simulator state. One known finding (listed): statistics of the previous replication stay subscribed to a producer that "
          "outlives the replication (model that is its own data producer + SimPersistent).",
  "technique": "deductive verification: postconditions from the statement + ghost assertions at the callback into the model; bounded native differential sweep as stand-in for the composition; z3"},
]
_claimed = {c["property_id"] for c in CHECKS}
NOT_APPLICABLE = [
 {"property_id": "C15", "reason": "analytic/statistical statement (density integrates to one, sampler distributed as density, erf_inv accuracy): "
                                  "not a first-order contract over one call; see DESIGN.md section 6 C15"},
] + [{"property_id": "C%02d" % i, "reason": NOT_BUILT} for i in range(1, 19) if "C%02d" % i not in _claimed and i != 15]
