"""CRLF-preserving exact string replacement in a /repo file.
usage: crlf_edit.py <file> <old-file> <new-file>   (old/new given with LF newlines)"""
import sys
path, oldf, newf = sys.argv[1:4]
s = open(path, newline='').read()
old = open(oldf).read().replace('\n', '\r\n')
new = open(newf).read().replace('\n', '\r\n')
if old.endswith('\r\n') and not open(oldf).read().endswith('\n'):
    pass
assert s.count(old) == 1, "old text occurs %d times" % s.count(old)
s = s.replace(old, new)
open(path, 'w', newline='').write(s)
print("edited", path)
