"""Regenerate MANIFEST.json from tools/manifest_src.py (keeps it schema-valid)."""
import json, os, sys
HERE = os.path.dirname(os.path.abspath(__file__))
sys.path.insert(0, HERE)
import manifest_src as M
man = {
 "version": 1,
 "setup_cmd": M.SETUP,
 "hooks": {"guard": "PYDSOL_CORE_VERIF",
           "enable": "no hooks: contracts are sidecar files under /verif/contracts; /repo is read (ast) and imported, never instrumented",
           "baseline_off_cmd": "cd /repo && /venv/bin/python -m pytest -ra -q -p no:cacheprovider --timeout=900 --continue-on-collection-errors",
           "source_commits": [], "add_only": True},
 "engines": [{"name": "pyvc", "path": "pyvc/", "serves_properties": [c["property_id"] for c in M.CHECKS],
              "kind_free_text": "contract-based deductive verifier for a Python subset: re-reads /repo with ast on every run, "
                                "symbolic execution per function against sidecar contracts (calls resolved by callee contract), "
                                "named obligations discharged by z3 (python API; exact field-identity step and purified QF_NRA for "
                                "nonlinear real arithmetic; cvc5/z3-new CLI for unknowns); counter-models replayed natively under /venv/bin/python"}],
 "checks": [],
 "not_applicable": M.NOT_APPLICABLE,
 "notes": M.NOTES,
}
for c in M.CHECKS:
    pid = c["property_id"]
    man["checks"].append({
        "property_id": pid,
        "quick_cmd": "./check %s --tier quick" % pid,
        "thorough_cmd": "./check %s --tier thorough" % pid,
        "evidence_file": "evidence/%s.json" % pid,
        "replay_cmd_template": "./check %s --replay {path}" % pid,
        "engine": "pyvc",
        "level_claimed": {"category": c.get("category", "proof"), "text": c["text"], "design_ref": c["design_ref"]},
        "level_note": c["note"],
        "technique": c["technique"],
    })
claimed = {c["property_id"] for c in M.CHECKS}
na = {x["property_id"] for x in M.NOT_APPLICABLE}
allp = {json.loads(l)["id"] for l in open(os.path.join(HERE, "..", "properties.jsonl"))}
assert claimed | na == allp and not (claimed & na), (allp - claimed - na, claimed & na)
json.dump(man, open(os.path.join(HERE, "..", "MANIFEST.json"), "w"), indent=1)
print("MANIFEST.json written:", len(man["checks"]), "checks,", len(man["not_applicable"]), "not applicable")
