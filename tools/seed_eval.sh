#!/bin/bash
# usage: seed_eval.sh <property> <seed worktree> <seed name> [extra properties to check...]
# Confirms a seeded change (tests pass, demo fails with / passes without) on a scratch worktree of /repo's HEAD
# and runs the registered checks against it.  Nothing is ever applied to /repo itself.
P=$1; SD=$2; NAME=$3; shift 3
OUT=/verif/seeded/$NAME
WT=/tmp/wt_eval_$NAME
mkdir -p $OUT
git -C $SD diff > $OUT/patch.diff
cp $SD/demo_seed.py $OUT/demo_seed.py 2>/dev/null
cp $SD/SEED_NOTE.txt $OUT/SEED_NOTE.txt 2>/dev/null
git -C /repo worktree remove --force $WT 2>/dev/null
git -C /repo worktree add -q $WT HEAD
cd $WT
PYTHONPATH=$WT/src /venv/bin/python $OUT/demo_seed.py > $OUT/demo_without.log 2>&1; D0=$?
if ! git apply $OUT/patch.diff 2> $OUT/apply.err; then echo "PATCH DOES NOT APPLY to /repo HEAD: $(head -2 $OUT/apply.err)"; APPLY=fail; else APPLY=ok; fi
T=$(PYTHONPATH=$WT/src /venv/bin/python -m pytest -q -p no:cacheprovider 2>&1 | tail -1)
PYTHONPATH=$WT/src /venv/bin/python $OUT/demo_seed.py > $OUT/demo_with.log 2>&1; D1=$?
echo "seed=$NAME property=$P apply=$APPLY tests='$T' demo_without=$D0 demo_with=$D1"
cd /verif
RES=""
for Q in $P "$@"; do
  PYVC_REPO=$WT ./check $Q > $OUT/check_$Q.log 2>&1; RC=$?
  V=$(grep -c '^VIOLATION' $OUT/check_$Q.log)
  RES="$RES $Q:exit=$RC,violations=$V"
  echo "  check $Q exit=$RC violations=$V :: $(grep -m2 '^VIOLATION\|^UNDECIDED\|^CHECKER' $OUT/check_$Q.log | cut -c1-160 | tr '\n' '|')"
done
python3 - <<PY
import json
json.dump({"seed": "$NAME", "breaks_property": "$P", "patch_applies_to_repo_head": "$APPLY", "tests_with_patch": "$T",
           "demo_exit_without_patch": $D0, "demo_exit_with_patch": $D1, "checks_run": "$RES".split(),
           "needs_to_manifest": open("$OUT/SEED_NOTE.txt").read() if __import__("os").path.exists("$OUT/SEED_NOTE.txt") else "",
           "what_was_run": "tools/seed_eval.sh: scratch worktree of /repo HEAD, git apply patch.diff, pytest (111 tests), demo_seed.py with/without, ./check with PYVC_REPO=<worktree>"},
          open("$OUT/meta.json", "w"), indent=1)
PY
git -C /repo worktree remove --force $WT
