#!/bin/bash
# usage: benign_eval.sh <worktree with behaviour-preserving edits> <name> <properties...>
# A behaviour-preserving refactoring must leave every check green (exit 0, no VIOLATION line).  Runs the registered checks
# against a scratch worktree of /repo's HEAD with the patch applied; nothing is ever applied to /repo itself.
SD=$1; NAME=$2; shift 2
OUT=/verif/benign/$NAME
WT=/tmp/wt_benign_$NAME
mkdir -p $OUT
git -C $SD diff > $OUT/patch.diff
cp $SD/BENIGN_NOTE.txt $OUT/BENIGN_NOTE.txt 2>/dev/null
git -C /repo worktree remove --force $WT 2>/dev/null
git -C /repo worktree add -q $WT HEAD
cd $WT
if ! git apply $OUT/patch.diff 2> $OUT/apply.err; then echo "PATCH DOES NOT APPLY"; fi
T=$(PYTHONPATH=$WT/src /venv/bin/python -m pytest -q -p no:cacheprovider 2>&1 | tail -1)
echo "benign=$NAME tests='$T' files: $(git diff --stat | tail -1)"
cd /verif
RES=""
for Q in "$@"; do
  PYVC_REPO=$WT ./check $Q > $OUT/check_$Q.log 2>&1; RC=$?
  V=$(grep -c '^VIOLATION' $OUT/check_$Q.log)
  RES="$RES $Q:exit=$RC,violations=$V"
  echo "  check $Q exit=$RC violations=$V :: $(grep -m3 '^VIOLATION\|^UNDECIDED\|^CHECKER' $OUT/check_$Q.log | cut -c1-220 | tr '\n' '|')"
done
python3 - <<PY
import json
json.dump({"name": "$NAME", "tests_with_patch": "$T", "checks_run": "$RES".split(),
           "what_was_run": "tools/benign_eval.sh: scratch worktree of /repo HEAD, git apply patch.diff, pytest, ./check with PYVC_REPO=<worktree>"},
          open("$OUT/meta.json", "w"), indent=1)
PY
git -C /repo worktree remove --force $WT
