"""Sidecar contract registry.  Contract files under /verif/contracts call these
functions; nothing here is imported by /repo."""
from . import sorts as S


class Contract:
    def __init__(self, qual, params=None, returns=None, requires=(), ensures=(), raises=(),
                 may_raise=(), modifies=(), on_raise="unchanged", inline=False, ghost_exit=(),
                 props=(), for_classes=None, effects="deterministic", kwargs=None,
                 labels=None, exc_ensures=(), pure=False, havoc_all=False, abstract=False,
                 replay=None, note=None, ghost_entry=(), opaque_result=False, axiom_sets=(),
                 preserves=(), assumed_ensures=(), lenient_types=False, receiver_keeps=None, havoc_only_if=None, quiet_modifies=(), generic_receiver=False):
        self.qual = qual
        self.params = {k: S.parse_type(v) for k, v in (params or {}).items()}
        self.returns = S.parse_type(returns) if returns is not None else S.NONE
        self.requires = list(requires)
        self.ensures = list(ensures)
        # raises: (ExcName, cond) -- the function raises ExcName exactly when cond held on
        # entry (iff).  may_raise: (ExcName, cond) -- only-if.
        self.raises = list(raises)
        self.may_raise = list(may_raise)
        self.modifies = list(modifies)
        self.on_raise = on_raise            # "unchanged" | "any" | list of field paths
        self.exc_ensures = list(exc_ensures)  # clauses that must hold on every raising exit
        self.inline = inline
        self.ghost_exit = list(ghost_exit)  # [(field-path, expr)] applied on normal exit
        self.ghost_entry = list(ghost_entry)
        self.props = list(props)
        self.for_classes = for_classes      # concrete classes to verify self for
        self.effects = effects
        self.pure = pure                    # modifies nothing
        self.havoc_all = havoc_all
        self.abstract = abstract            # no body to verify (interface / callback / dependency)
        self.replay = replay
        self.note = note
        self.labels = labels or {}
        self.opaque_result = opaque_result
        self.axiom_sets = list(axiom_sets)
        # rely conditions of a callback: [(class, clause over x and old(...))] assumed, after the
        # havoc, for every object of that class in scope (callbacks use only the public API)
        self.preserves = list(preserves)
        self.lenient_types = lenient_types
        # (class, excluded fields, note): when the receiver is statically an instance of class, the havoc of a
        # callback leaves all its declared fields except the excluded ones at their pre-call values (an
        # *assumption* about callbacks, applied structurally so that facts about the receiver survive syntactically)
        self.receiver_keeps = receiver_keeps
        # spec expression over the pre-state: when it is false the call changes no object that existed before
        # it (checked on the function itself by the nohavoc.* obligations; used at call sites to keep the heap)
        self.havoc_only_if = havoc_only_if
        self.quiet_modifies = list(quiet_modifies)     # what may still change when havoc_only_if is false
        # verified once for a receiver of ANY subclass of the class (calls on self are dispatched closed-world, so an
        # overriding subclass gets its own case); used for the operators of Quantity, inherited unchanged by 41 classes
        self.generic_receiver = generic_receiver
        self.assumed_ensures = list(assumed_ensures)   # assumed at call sites, NOT verified (listed as assumptions)


class LoopSpec:
    def __init__(self, qual, loop, inv=(), modifies=(), decreases=None, labels=None,
                 ghost_init=(), ghost_pre=(), post=(), locals_types=None, hints=()):
        # locals first assigned inside the loop body but used after it: name -> type
        self.locals_types = {k: S.parse_type(v) for k, v in (locals_types or {}).items()}
        self.qual = qual
        self.loop = loop
        self.inv = list(inv)
        self.modifies = list(modifies)
        self.ghost_init = list(ghost_init)    # [(ghost local, expr)] before the loop
        self.ghost_pre = list(ghost_pre)      # [(ghost local, expr)] at the start of each iteration
        self.post = list(post)                # clauses that must hold when the loop exits normally
        # proof hints (ghost asserts) at the end of the body, before the invariant is re-established: each is an
        # obligation of its own ("inv-hint.*"); only a hint that was proved is then used as a hypothesis
        self.hints = list(hints)


class Lemma:
    def __init__(self, name, src, params=None, props=(), self_class=None, note=None, axiom_sets=()):
        self.axiom_sets = list(axiom_sets)
        self.name = name
        self.src = src
        self.params = {k: S.parse_type(v) for k, v in (params or {}).items()}
        self.props = list(props)
        self.note = note


class Registry:
    def __init__(self):
        self.contracts = {}      # qual -> Contract
        self.loops = {}          # (qual, ordinal) -> LoopSpec
        self.fields = {}         # class -> {name: (Ty, ghost)}
        self.macros = {}         # name -> (params, expr text)
        self.lemmas = {}
        self.specfuns = {}       # name -> python callable(ctx, *SV) -> SV
        self.trusted = []        # textual list of assumed dependency contracts
        self.ufuns = {}          # name -> z3 function
        self.axioms = []         # z3 formulas assumed globally (dependency axioms)
        self.axiom_notes = []
        self.class_ids = {}
        self.ground = []         # ground/data obligations: (name, props, callable)
        self.axiom_sets = {}     # name -> [(formula, note)] : scoped dependency axioms
        self.global_invs = []    # [(name, fn(eng, state) -> z3 Bool)]: global heap invariants (assumed at entry / after havoc)
        self.static_refs = {}
        self.variants = {}              # (qual, receiver class) -> Contract (constructors only)
        self.immutable_fields = set()   # field keys written only by constructors (checked by a frame scan)
        self.interface_calls = {}   # (caller qual, callee qual) -> qual of the interface contract used at that site
        self.ghost_calls = {}    # (function qual, callee attribute name) -> {"asserts": [...], "assign": [...]}
        self.variant = None

    # --- declaration API used by the sidecar files
    def contract(self, qual, **kw):
        c = Contract(qual, **kw)
        self.contracts[qual] = c
        return c

    def contract_variant(self, qual, classes, **kw):
        """A constructor contract specific to some receiver classes (only for __init__: a constructor runs
        on an exactly known class, through construction or through super()/explicit base calls on self)."""
        # constructors run on an exactly known class; for other methods a variant is only ever applied to calls
        # on `self` while verifying for that exact receiver class (any other call site is rejected as unsupported)
        c = Contract(qual, **kw)
        c.for_classes = list(classes)
        c.variant = True
        for cl in classes:
            self.variants[(qual, cl)] = c
        base = self.contracts.get(qual)
        if base is not None and base.for_classes:
            base.for_classes = [x for x in base.for_classes if x not in classes]
        return c

    def contract_for(self, qual, cls=None):
        v = self.variants.get((qual, cls)) if cls else None
        return v if v is not None else self.contracts.get(qual)

    def loop_invariant(self, qual, loop=0, **kw):
        self.loops[(qual, loop)] = LoopSpec(qual, loop, **kw)

    def declare_fields(self, cls, ghost=(), **fields):
        d = self.fields.setdefault(cls, {})
        for k, v in fields.items():
            d[k] = (S.parse_type(v), k in ghost)

    def define(self, sig, expr):
        name, rest = sig.split("(", 1)
        params = [p.strip() for p in rest.rstrip(")").split(",") if p.strip()]
        self.macros[name.strip()] = (params, expr)

    def lemma(self, name, src, **kw):
        self.lemmas[name] = Lemma(name, src, **kw)

    def specfun(self, name, fn):
        self.specfuns[name] = fn

    def trust(self, text):
        if text not in self.trusted:
            self.trusted.append(text)

    def ufun(self, name, *sorts):
        import z3
        if name not in self.ufuns:
            self.ufuns[name] = z3.Function(name, *sorts)
        return self.ufuns[name]

    def axiom(self, formula, note):
        self.axioms.append(formula)
        self.axiom_notes.append(note)

    def interface_call(self, caller_qual, callee_qual, contract_qual):
        """Inside ``caller_qual`` a call that resolves to ``callee_qual`` is checked against the contract registered as
        ``contract_qual`` (the abstract interface method's contract: the receiver may be a user-defined implementation)."""
        self.interface_calls[(caller_qual, callee_qual)] = contract_qual

    def ghost_before_call(self, qual, callee, asserts=(), assign=()):
        self.ghost_calls[(qual, callee)] = {"asserts": list(asserts), "assign": list(assign)}

    def scoped_axiom(self, set_name, formula, note):
        self.axiom_sets.setdefault(set_name, []).append((formula, note))

    def axioms_for(self, sets):
        out = list(self.axioms)
        for n in sets:
            out += [f for f, _ in self.axiom_sets.get(n, [])]
        return out

    def class_id(self, cls):
        if cls not in self.class_ids:
            self.class_ids[cls] = len(self.class_ids) + 1
        return self.class_ids[cls]

    def ground_obligation(self, name, props, fn):
        self.ground.append((name, list(props), fn))
