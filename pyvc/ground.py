"""Ground / data obligations: closed facts about /repo's current tree (frame scans over the
AST, table invariants over the live module data)."""
import time


def run_ground(table, reg, name, timeout_ms=None):
    t0 = time.time()
    res = {"unit": "ground:" + name, "qual": name, "cls": None, "kind": "ground", "obligations": [],
           "unsupported": None, "vacuous": False, "error": None, "file": "working tree", "sha256": None}
    for n, props, fn in reg.ground:
        if n != name:
            continue
        res["props"] = props
        try:
            out = fn(table)
        except Exception as e:      # pragma: no cover
            import traceback
            res["error"] = "%s: %s %s" % (type(e).__name__, e, traceback.format_exc()[-600:])
            break
        items = out if isinstance(out, list) else [(name, out[0], out[1])]
        for oname, ok, detail in items:
            res["obligations"].append({"name": oname, "kind": "ground", "status": "proved" if ok else "refuted",
                                       "backend": "ground-eval", "time_s": 0.0, "model": None if ok else {"detail": detail},
                                       "detail": {"fact": detail}, "unit": res["unit"], "props": props,
                                       "reason": None, "paths": 1})
    res["wall_s"] = round(time.time() - t0, 3)
    return res


def run_native(rec, timeout=None):
    """Run the replay driver on ``rec`` under the repository's interpreter against the tree under test (BOUNDED
    stand-ins and witnesses of known findings).  Returns the driver's JSON result, or raises."""
    import json
    import os
    import subprocess
    import tempfile
    verif = os.path.dirname(os.path.dirname(os.path.abspath(__file__)))
    fd, path = tempfile.mkstemp(suffix=".json")
    os.write(fd, json.dumps(rec).encode())
    os.close(fd)
    env = dict(os.environ)
    env["PYTHONPATH"] = os.path.join(os.environ.get("PYVC_REPO", "/repo"), "src") + os.pathsep + verif
    if timeout is None:
        timeout = 1800 if os.environ.get("PYVC_TIER") == "thorough" else 400
    try:
        p = subprocess.run([os.environ.get("PYVC_NATIVE_PY", "/venv/bin/python"), "-W", "ignore",
                            os.path.join(verif, "replay", "driver.py"), path], capture_output=True, text=True, env=env, timeout=timeout)
        lines = [l for l in p.stdout.strip().splitlines() if l.startswith("{")]
        if not lines:
            raise RuntimeError("replay driver gave no result: %s" % (p.stderr or p.stdout)[-300:])
        res = json.loads(lines[-1])
        note = str(res.get("note") or "")
        if note.startswith("replayer crashed") or note.startswith("no replayer"):
            # never let a broken harness look like "nothing found"
            raise RuntimeError("native harness failed: %s %s" % (note, str(res.get("trace") or "")[-300:]))
        return res
    finally:
        os.unlink(path)
