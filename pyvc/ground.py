"""Ground / data obligations: closed facts about /repo's current tree (frame scans over the
AST, table invariants over the live module data)."""
import time


def run_ground(table, reg, name, timeout_ms=None):
    t0 = time.time()
    res = {"unit": "ground:" + name, "qual": name, "cls": None, "kind": "ground", "obligations": [],
           "unsupported": None, "vacuous": False, "error": None, "file": "working tree", "sha256": None}
    for n, props, fn in reg.ground:
        if n != name:
            continue
        res["props"] = props
        try:
            out = fn(table)
        except Exception as e:      # pragma: no cover
            import traceback
            res["error"] = "%s: %s %s" % (type(e).__name__, e, traceback.format_exc()[-600:])
            break
        items = out if isinstance(out, list) else [(name, out[0], out[1])]
        for oname, ok, detail in items:
            res["obligations"].append({"name": oname, "kind": "ground", "status": "proved" if ok else "refuted",
                                       "backend": "ground-eval", "time_s": 0.0, "model": None if ok else {"detail": detail},
                                       "detail": {"fact": detail}, "unit": res["unit"], "props": props,
                                       "reason": None, "paths": 1})
    res["wall_s"] = round(time.time() - t0, 3)
    return res
