"""Unit drivers: verify one function of /repo against its contract for one receiver
class; verify one lemma program against the contracts of its callees."""
import ast
import time
import traceback

import z3

from . import sorts as S
from .sorts import SV, Ty, INT, BOOL, REAL, XREAL, STR, NONE, OBJ, REF, SEQ, XR, PyObj
from .engine import Engine, State, Unsupported, Raise, exc_is, mk_none
from .prover import Prover, Obligation
from . import stmts, calls


def fresh_param(eng, st, name, ty):
    if ty.kind == "kwargs":
        return SV(ty, S.fresh("kwargs", z3.IntSort()), items={})
    c = z3.Const("p_" + name, S.sort_of(ty))
    sv = SV(ty, c)
    if ty.kind == "ref":
        st.assume(c < eng.A0)
        st.assume(c >= 0 if ty.nullable else c > 0)
        inst = eng.isinstance_ref(c, ty.cls)
        st.assume(z3.Or(c == 0, inst) if ty.nullable else inst)
    if ty.kind == "obj":
        # references hidden in dynamic values were allocated before the call
        st.assume(z3.Implies(PyObj.is_O_ref(c), z3.And(PyObj.rval(c) > 0, PyObj.rval(c) < eng.A0)))
    if ty.kind == "seq" and ty.elem.kind == "ref":
        pass
    return sv


def frame_obligations(eng, prefix, st, old, allowed, kind="frame"):
    """All heap fields: unchanged except at (key, obj) in allowed and at fresh objects."""
    n = 0
    for key, arr in st.heap.items():
        base = old.heap.get(key)
        if base is None:
            # first touched after entry: heap_arr created it lazily in st only -> unchanged base
            continue
        if arr.eq(base):
            continue
        if key in allowed or key in getattr(eng.reg, "auto_keys", ()):
            continue
        objs = [o for (kk, o) in [a for a in allowed if isinstance(a, tuple)] if kk == key]
        r = z3.Int("fr_r")
        guard = [r < eng.A0] + [r != o.t for o in objs]
        cond = z3.ForAll([r], z3.Implies(z3.And(*guard), z3.Select(arr, r) == z3.Select(base, r)))
        eng.oblige("%s.%s" % (prefix, key), kind, st, cond)
        n += 1
    return n


def nohavoc_obligations(eng, c, s, old, env, prefix):
    """havoc_only_if of the contract under verification: on every exit reached with the condition false in
    the pre-state, no object that existed at entry has changed."""
    if not c.havoc_only_if:
        return
    cond = eng.spec_eval(c.havoc_only_if, old, old=old, env=env)
    try:
        if eng.prover.quick(s.pc, cond, 2000) == "proved":
            return          # this exit is only reached when the condition holds: nothing to show
    except Exception:
        pass
    sg = s.fork().assume(z3.Not(cond))
    allowed = allowed_set(eng, list(c.quiet_modifies) + [p for p, _ in c.ghost_exit], env, old) or set()
    conj = []
    r = z3.Int("fr_r")
    for key, arr in sg.heap.items():
        base = old.heap.get(key)
        if base is None or arr.eq(base) or key in allowed or key in getattr(eng.reg, "auto_keys", ()):
            continue
        objs = [o for (kk, o) in [a for a in allowed if isinstance(a, tuple)] if kk == key]
        conj.append(z3.ForAll([r], z3.Implies(z3.And(r < eng.A0, *[r != o.t for o in objs]),
                                              z3.Select(arr, r) == z3.Select(base, r))))
    eng.oblige(prefix + ".no-existing-object-changed", "frame", sg, z3.And(*conj) if conj else z3.BoolVal(True))


def allowed_set(eng, paths, env, st):
    allowed = set()
    for p in paths:
        if p == "heap.*":
            return None
        if p.startswith("heap."):
            allowed.add(p[5:])
            continue
        for o, cls, fn in calls.resolve_path(eng, p, env, st):
            allowed.add((eng.field_key(cls, fn), o))
    return allowed


def verify_function(table, reg, qual, cls, props, timeout_ms=None):
    """Returns a dict describing the unit (obligations etc.)."""
    t0 = time.time()
    unit = "%s[%s]" % (qual, cls) if cls and not qual.startswith(cls + ".") else qual
    res = {"unit": unit, "qual": qual, "cls": cls, "kind": "function", "obligations": [],
           "unsupported": None, "vacuous": False, "error": None, "props": list(props)}
    f = table.get(qual)
    c = reg.contract_for(qual, cls)
    if f is None:
        res["error"] = "function %s not found in /repo working tree" % qual
        return res
    res.update({"file": f.file, "line": f.lineno, "sha256": f.sha256, "segment_lines": f.segment.count("\n") + 1})
    prover = Prover(timeout_ms=timeout_ms, axioms=reg.axioms_for(c.axiom_sets if c else ()))
    eng = Engine(table, reg, prover, self_class=cls, unit=unit, props=props)
    eng.func = f
    eng.cur_class = f.cls
    eng.lenient_types = bool(c and c.lenient_types)
    if f.has_docstring():
        eng.dropped["docstring"] += 1
    try:
        st = State()
        a = f.node.args
        names = [x.arg for x in a.args] + [x.arg for x in a.kwonlyargs]
        env = {}
        if f.cls and f.name == "__new__":
            tc = z3.Int("cls")
            subs = [x for x in eng.table.subclasses(cls) if x != cls] or [cls]
            st.assume(z3.Or(*[tc == eng.class_id(x) for x in subs]))
            env[names[0]] = SV(Ty("type"), tc)
            eng.self_class = None
            names = names[1:]
        elif f.cls and not f.is_staticmethod and not f.is_classmethod:
            selfc = z3.Int("self")
            env[names[0]] = SV(REF(cls), selfc)
            st.assume(selfc > 0)
            st.assume(selfc < eng.A0)
            if c is not None and c.generic_receiver:
                # an instance of one of the concrete subclasses (the generic base itself is never instantiated)
                subs = [x for x in eng.table.subclasses(cls) if x != cls] or [cls]
                st.assume(z3.Or(*[S.typeof(selfc) == eng.class_id(x) for x in subs]))
                eng.self_class = None
            else:
                st.assume(S.typeof(selfc) == eng.class_id(cls))
            names = names[1:]
        elif f.is_classmethod:
            names = names[1:]
        defaults = {}
        pos = [x.arg for x in a.args]
        for nm, d in zip(pos[len(pos) - len(a.defaults):], a.defaults):
            defaults[nm] = d
        for x, d in zip(a.kwonlyargs, a.kw_defaults):
            if d is not None:
                defaults[x.arg] = d
        for n in names:
            if n not in c.params:
                d = defaults.get(n)
                if isinstance(d, ast.Constant) and (d.value is None or isinstance(d.value, (bool, int, float, str))):
                    # a parameter the contract does not know, with a constant default: an optional parameter added after the
                    # contract was written.  The contract speaks about the calls that existed then, i.e. without it: it is fixed
                    # at its default (what a call with the new argument does is outside every listed property's contract).
                    env[n] = eng.ev_Constant(d, st)[0][1]
                    k = "optional parameter outside the contract fixed at its default"
                    eng.dropped[k] = eng.dropped.get(k, 0) + 1
                    continue
                raise Unsupported("parameter %s of %s has no type in the contract" % (n, qual))
            env[n] = fresh_param(eng, st, n, c.params[n])
        if a.kwarg is not None:
            env[a.kwarg.arg] = SV(Ty("kwargs"), S.fresh("kwargs", z3.IntSort()), items={})
        if a.vararg is not None:
            raise Unsupported("*args parameter")
        st.env = env
        # ghost parameters of the contract (logical variables)
        for n, ty in c.params.items():
            if n not in env and n.startswith("g_"):
                env[n] = fresh_param(eng, st, n, ty)
        # materialise heap arrays for every declared field so that `old` sees them
        for cname, flds in reg.fields.items():
            for fn, (ty, ghost) in flds.items():
                eng.heap_arr(st, "%s.%s" % (cname, fn), ty)
        for gname, gfn in reg.global_invs:
            st.assume(gfn(eng, st))
        for r in c.requires:
            st.assume(eng.spec_eval(r, st, old=st))
        # vacuity guard: the precondition is satisfiable
        sat = prover.sat(st.pc, timeout_ms=5000)
        res["pre_sat"] = sat
        if sat == "unsat":
            res["vacuous"] = True
            return res
        old = st.fork()
        eng.old_state = old
        for path, expr in c.ghost_entry:
            for o, cl, fn in calls.resolve_path(eng, path, env, st):
                eng.store_field(st, o.t, cl, fn, eng.spec_value(expr, st, old=old))
        if c.havoc_only_if:
            # case split at entry on the contract's own havoc condition: in the quiet case every callee's
            # conditional havoc is decided on the spot and the heap stays syntactically the entry heap
            cnd = eng.spec_eval(c.havoc_only_if, st, old=old, env=env)
            outs = []
            for es in (st.fork().assume(cnd), st.fork().assume(z3.Not(cnd))):
                if eng.feasible(es):
                    outs += stmts.exec_block(eng, f.body, es)
        else:
            outs = stmts.exec_block(eng, f.body, st)
        eng.paths = len(outs)
        normal_allowed = allowed_set(eng, c.modifies + [p for p, _ in c.ghost_exit], env, old)
        def exc_frame(spec):
            if spec == "unchanged":
                return set()
            if spec == "any":
                return normal_allowed
            return allowed_set(eng, list(spec), env, old)
        if isinstance(c.on_raise, dict):
            exc_allowed_by = {k: exc_frame(v) for k, v in c.on_raise.items()}
            exc_allowed = None
        else:
            exc_allowed_by = {}
            exc_allowed = exc_frame(c.on_raise)
        n_normal = n_raise = 0
        n_normal_dead = 0
        for s, ctl in outs:
            if ctl[0] in ("next", "return"):
                n_normal += 1
                # anti-vacuity: a normal exit whose path condition is contradictory (e.g. through contradictory assumed
                # clauses of callee contracts) would "prove" anything
                if prover.sat(s.pc, 2000) == "unsat":
                    n_normal_dead += 1
                v = ctl[1] if ctl[0] == "return" else mk_none()
                result = None
                if c.returns.kind != "none":
                    if v.ty.kind == "optseq":
                        raise Unsupported("optional sequence returned")
                    rv, cond = eng.coerce(v, c.returns)
                    eng.pack(rv)
                    if cond is not None:
                        eng.oblige("post.result-type", "post", s, cond)
                        s.assume(cond)
                    result = rv
                elif v.ty.kind != "none":
                    pass     # value returned but contract says None: ignore value (callers cannot rely on it)
                for path, expr in c.ghost_exit:
                    for o, cl, fn in calls.resolve_path(eng, path, env, s):
                        eng.store_field(s, o.t, cl, fn, eng.spec_value(expr, s, old=old, result=result, env=env))
                for exc, cond in c.raises:
                    g = eng.spec_eval(cond, old, old=old, env=env)
                    eng.oblige("must-raise.%s" % exc, "raises", s, z3.Not(g),
                               eval_terms=witness_terms(eng, env, old))
                for i, cl in enumerate(c.ensures):
                    g = eng.spec_eval(cl, s, old=old, result=result, env=env)
                    lab = c.labels.get(cl, str(i))
                    eng.oblige("post.%s" % lab, "post", s, g, eval_terms=witness_terms(eng, env, old, result))
                if normal_allowed is not None:
                    frame_obligations(eng, "frame", s, old, normal_allowed)
                nohavoc_obligations(eng, c, s, old, env, "nohavoc")
            elif ctl[0] == "raise":
                exc = ctl[1]
                if not eng.feasible(s):
                    # the raising path is infeasible (quantifier-free part of its condition is
                    # already contradictory): nothing to check
                    res.setdefault("infeasible_raise_paths", 0)
                    res["infeasible_raise_paths"] += 1
                    continue
                n_raise += 1
                clauses = [(e, cd) for e, cd in list(c.raises) + list(c.may_raise) if exc_is(exc.cls, e)]
                if exc.origin == "implicit":
                    name = "noexc.%s" % exc.site if not clauses else "raises.%s" % exc.cls
                elif exc.origin and exc.origin.startswith("callee:"):
                    name = "noexc.%s.via(%s)" % (exc.cls, exc.origin[7:]) if not clauses else "raises.%s" % exc.cls
                else:
                    name = "raises.%s" % exc.cls
                if clauses:
                    g = z3.Or(*[eng.spec_eval(cd, old, old=old, env=env) for e, cd in clauses])
                else:
                    g = z3.BoolVal(False)
                status = eng.oblige(name, "raises", s, g, eval_terms=witness_terms(eng, env, old))
                if not clauses and status == "proved":
                    # no clause allows this exception and the path was proved infeasible: nothing else to show on it
                    continue
                ea = exc_allowed
                if exc_allowed_by:
                    ea = set()      # default for a class not listed: strict frame
                    for k2, v2 in exc_allowed_by.items():
                        if exc_is(exc.cls, k2):
                            ea = v2
                            break
                if ea is not None:
                    frame_obligations(eng, "excframe.%s" % exc.cls, s, old, ea, kind="excframe")
                nohavoc_obligations(eng, c, s, old, env, "nohavoc.%s" % exc.cls)
                for i, cl in enumerate(c.exc_ensures):
                    g = eng.spec_eval(cl, s, old=old, env=env)
                    eng.oblige("excpost.%s.%d" % (exc.cls, i), "post", s, g)
            else:
                raise Unsupported("loop control escaping function")
        res["paths"] = {"normal": n_normal, "raise": n_raise}
        res["normal_exits_unreachable"] = n_normal_dead
        if n_normal and n_normal_dead == n_normal:
            # every returning path is contradictory: the postconditions were discharged vacuously
            res["vacuous"] = True
        # determinism effect: a function declared deterministic must not (transitively through
        # contracts) use a primitive whose result varies between interpreter processes
        if c.effects == "deterministic":
            bad = sorted(eng.effects_used)
            ob = Obligation("effects.deterministic", "effects")
            ob.unit, ob.props, ob.backend, ob.paths = unit, list(props), "effect-check", 1
            if bad:
                ob.status = "refuted"
                ob.model = {"process-varying primitives used": "; ".join(bad)}
                ob.detail = {"goal": "no process-varying primitive (hash(str), id, set iteration, time, default repr) on any path",
                             "notes": bad}
            eng.obls.append(ob)
        # covers: every declared raise condition is reachable under the precondition
        covers = []
        for exc, cond in list(c.raises) + list(c.may_raise):
            g = eng.spec_eval(cond, old, old=old, env=env)
            covers.append({"cover": "raises %s when %s" % (exc, cond), "result": prover.sat(old.pc + [g], 3000)})
        res["covers"] = covers
    except Unsupported as e:
        res["unsupported"] = str(e)
    except Exception as e:      # engine crash: checker error, never a verdict
        res["error"] = "%s: %s\n%s" % (type(e).__name__, e, traceback.format_exc()[-1500:])
    res["obligations"] = [merge_noexc(o) for o in dedup(eng.obls)]
    res["dropped"] = dict(eng.dropped)
    res["inlined"] = sorted(eng.inlined)
    res["callees"] = sorted(eng.callees)
    res["effects"] = sorted(eng.effects_used)
    res["auto_reads"] = sorted(getattr(eng, "auto_reads", ()))
    res["wall_s"] = round(time.time() - t0, 3)
    res["solver"] = dict(prover.stats)
    return res


def witness_terms(eng, env, old, result=None):
    out = {}
    for n, v in env.items():
        if v.t is not None and not n.startswith("$"):
            out["arg:" + n] = v.t
    if "self" in env:
        selfv = env["self"]
        for cname in eng.table.mro(selfv.ty.cls):
            for fn, (ty, ghost) in eng.reg.fields.get(cname, {}).items():
                key = "%s.%s" % (cname, fn)
                if key in old.heap:
                    out["self." + fn] = z3.Select(old.heap[key], selfv.t)
    if result is not None and result.t is not None:
        out["result"] = result.t
    return out


def dedup(obls):
    """Merge same-named obligations (e.g. proved no-exception sites visited on many paths)."""
    out = {}
    order = {"refuted": 3, "unknown": 2, "proved": 1}
    for o in obls:
        if o.name in out:
            p = out[o.name]
            p.time_s += o.time_s
            p.paths += o.paths
            if order.get(o.status, 1) > order.get(p.status, 1):
                p.status, p.model, p.detail, p.reason = o.status, o.model, o.detail, o.reason
            if p.backend == "syntactic":
                p.backend = o.backend
        else:
            out[o.name] = o
    return list(out.values())


def merge_noexc(o):
    d = o.as_dict()
    d["time_s"] = round(d["time_s"], 4)
    return d


def verify_lemma(table, reg, name, timeout_ms=None):
    t0 = time.time()
    lem = reg.lemmas[name]
    res = {"unit": "lemma:" + name, "qual": name, "cls": None, "kind": "lemma", "obligations": [],
           "unsupported": None, "vacuous": False, "error": None, "props": list(lem.props),
           "file": "sidecar", "sha256": None}
    prover = Prover(timeout_ms=timeout_ms, axioms=reg.axioms_for(lem.axiom_sets))
    eng = Engine(table, reg, prover, self_class=None, unit="lemma:" + name, props=lem.props)
    eng.lemma_mode = True
    try:
        tree = ast.parse(lem.src.strip())
        fn = tree.body[0]
        st = State()
        for a in fn.args.args:
            if a.arg not in lem.params:
                raise Unsupported("lemma param %s untyped" % a.arg)
            st.env[a.arg] = fresh_param(eng, st, a.arg, lem.params[a.arg])
        for cname, flds in reg.fields.items():
            for f2, (ty, ghost) in flds.items():
                eng.heap_arr(st, "%s.%s" % (cname, f2), ty)
        for gname, gfn in reg.global_invs:
            st.assume(gfn(eng, st))
        eng.old_state = st.fork()

        class _F:
            qual = "lemma:" + name
            module = None
            cls = None
        eng.func = _F()
        outs = stmts.exec_block(eng, fn.body, st)
        n_ok = 0
        for s, ctl in outs:
            if ctl[0] == "raise":
                # a lemma states what holds when the calls complete normally; paths on which a
                # callee raises (as its contract allows) are outside the statement
                continue
            else:
                n_ok += 1
        # vacuity: at least one path reaches the end with satisfiable assumptions
        reach = "unsat"
        for s, ctl in outs:
            if ctl[0] != "raise":
                r = prover.sat(s.pc, 5000)
                if r != "unsat":
                    reach = r
                    break
        res["pre_sat"] = reach
        if reach == "unsat":
            res["vacuous"] = True
    except Unsupported as e:
        res["unsupported"] = str(e)
    except Exception as e:
        res["error"] = "%s: %s\n%s" % (type(e).__name__, e, traceback.format_exc()[-1500:])
    res["obligations"] = [merge_noexc(o) for o in dedup(eng.obls)]
    res["callees"] = sorted(eng.callees)
    res["inlined"] = sorted(eng.inlined)
    res["dropped"] = dict(eng.dropped)
    res["wall_s"] = round(time.time() - t0, 3)
    res["solver"] = dict(prover.stats)
    return res
