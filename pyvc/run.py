"""Property-level driver: ./check <Cxx> [--tier quick|thorough] [--replay path]

Exit codes: 0 held (all obligations generated from /repo's current tree discharged, count
non-zero, modulo listed known findings); 1 violation (an obligation refuted by the solver,
line ``VIOLATION property=<id> replay=<path>``); 2 undecided (unknown / unsupported, never a
violation); 3 checker error (engine crash, vacuity guard, scan for assumptions).
"""
import importlib
import json
import multiprocessing as mp
import os
import subprocess
import sys
import time

VERIF = os.path.dirname(os.path.dirname(os.path.abspath(__file__)))
sys.path.insert(0, VERIF)

CONTRACT_MODULES = ["deps", "stats_tally", "stats_weighted", "pubsub", "eventlist", "streams", "parameters", "simulator", "distributions",
                    "simstats", "reinit", "quantity"]      # load order (later modules extend contracts of earlier ones); others alphabetically

_cache = {}


def load_all():
    if "reg" in _cache:
        return _cache["table"], _cache["reg"]
    from pyvc.source import Table
    from pyvc.spec import Registry
    table = Table()
    reg = Registry()
    reg.table = table
    mods = list(CONTRACT_MODULES)
    for name in sorted(os.listdir(os.path.join(VERIF, "contracts"))):
        if name.endswith(".py") and name[:-3] not in mods and not name.startswith("_"):
            mods.append(name[:-3])
    for m in mods:
        mod = importlib.import_module("contracts." + m)
        mod.load(reg)
    auto_declare(reg, table)
    try:
        from contracts import deps as _deps
        _deps.axiom_sanity(reg)
    except Exception as e:       # pragma: no cover
        print("CHECKER-ERROR axiom sanity setup: %s" % e)
    _cache["table"], _cache["reg"] = table, reg
    return table, reg


def auto_declare(reg, table):
    """Fields a class under contract initialises in __init__ with a constant and that no contract module declares: fields
    added after the contracts were written (diagnostic counters, cached labels).  They are declared with the constant's type
    so that the functions touching them stay inside the subset, and marked: no frame condition, invariant or postcondition
    speaks about them, and every call and loop is assumed to have overwritten them (so nothing can be proved *from* them)."""
    import ast
    reg.auto_keys = set()
    reg.auto_notes = []
    for cname, ci in table.classes.items():
        mro = table.mro(cname)
        if not any(reg.fields.get(c) for c in mro):
            continue
        init = ci.methods.get("__init__")
        if init is None:
            continue
        for node in ast.walk(init.node):
            tgt = val = None
            if isinstance(node, ast.Assign) and len(node.targets) == 1:
                tgt, val = node.targets[0], node.value
            elif isinstance(node, ast.AnnAssign) and node.value is not None:
                tgt, val = node.target, node.value
            if not (isinstance(tgt, ast.Attribute) and isinstance(tgt.value, ast.Name) and tgt.value.id == "self"
                    and isinstance(val, ast.Constant)):
                continue
            name = tgt.attr
            if name.startswith("__") and not name.endswith("__"):
                name = "_%s%s" % (cname, name)
            related = set(mro) | set(table.subclasses(cname))
            if any(name in (reg.fields.get(c) or {}) for c in related):
                continue
            v = val.value
            ty = "bool" if isinstance(v, bool) else "int" if isinstance(v, int) else "float" if isinstance(v, float) \
                else "str" if isinstance(v, str) else None
            if ty is None:
                continue
            reg.declare_fields(cname, **{name: ty})
            reg.auto_keys.add("%s.%s" % (cname, name))
            reg.auto_notes.append("%s.%s: %s (initialised with %r in __init__; not declared by any contract module)" % (cname, name, ty, v))


def units_for(prop, reg, table):
    """(kind, qual, cls) for every contract / lemma / ground obligation tagged with prop."""
    out = []
    for q, c in reg.contracts.items():
        if prop not in c.props or c.abstract:
            continue
        classes = c.for_classes or [q.split(".")[0] if "." in q else None]
        for cl in classes:
            out.append(("function", q, cl))
    seenv = set()
    for (q, cl), c in reg.variants.items():
        if prop in c.props and (q, cl) not in seenv:
            seenv.add((q, cl))
            out.append(("function", q, cl))
    for n, l in reg.lemmas.items():
        if prop in l.props:
            out.append(("lemma", n, None))
    for n, props, fn in reg.ground:
        if prop in props:
            out.append(("ground", n, None))
    return out


def run_unit(job):
    kind, qual, cls, prop, timeout_ms, extra = job
    if os.environ.get("PYVC_TEST_KILL_UNIT") == qual:       # self-test of the driver: this unit's worker dies abruptly
        os._exit(17)
    # hard wall-clock limit per unit: a solver call that spins inside native code ignores its timeout and cannot be interrupted
    # from Python (seen once: a worker at 100 % CPU for 20 minutes in a check that normally takes 10 s).  The worker then
    # kills itself; run_jobs retries the unit in a fresh process and reports a checker error (exit 3) if it dies again.
    import threading
    limit = float(os.environ.get("PYVC_UNIT_LIMIT") or (1500 if os.environ.get("PYVC_TIER") == "thorough" else 600))
    killer = threading.Timer(limit, os._exit, args=(78,))
    killer.daemon = True
    killer.start()
    try:
        return _run_unit(job)
    finally:
        killer.cancel()


def _run_unit(job):
    kind, qual, cls, prop, timeout_ms, extra = job
    table, reg = load_all()
    from pyvc import verify
    try:
        if kind == "function":
            c = reg.contract_for(qual, cls)
            saved = list(c.requires)
            if extra:
                c.requires = saved + list(extra)
            try:
                r = verify.verify_function(table, reg, qual, cls, c.props, timeout_ms)
            finally:
                c.requires = saved
        elif kind == "lemma":
            r = verify.verify_lemma(table, reg, qual, timeout_ms)
        else:
            from pyvc import ground
            r = ground.run_ground(table, reg, qual, timeout_ms)
    except Exception as e:       # pragma: no cover
        import traceback
        r = {"unit": qual, "qual": qual, "cls": cls, "kind": kind, "obligations": [],
             "unsupported": None, "vacuous": False,
             "error": "%s: %s\n%s" % (type(e).__name__, e, traceback.format_exc()[-1200:])}
    return r


def run_jobs(jobs, nproc):
    """Units in parallel.  A worker process that dies (solver crash, OOM) must never hang the check or lose a unit silently:
    its units are retried with fewer workers and, failing that, reported as checker errors (exit 3)."""
    from concurrent.futures import ProcessPoolExecutor, as_completed
    ctx = mp.get_context("fork")
    results = [None] * len(jobs)
    pending = list(range(len(jobs)))
    deaths = 0
    with ProcessPoolExecutor(max_workers=max(1, nproc), mp_context=ctx) as ex:
        futs = {ex.submit(run_unit, jobs[i]): i for i in pending}
        for f in as_completed(futs):
            try:
                results[futs[f]] = f.result()
            except Exception:       # BrokenProcessPool: every unit still in flight is lost with the dead worker
                deaths += 1
    pending = [i for i in pending if results[i] is None]
    # units lost to a dying worker: one fresh single-worker pool per unit, so that a unit that crashes its process
    # again is the only one reported
    for i in list(pending):
        for _ in range(2):
            with ProcessPoolExecutor(max_workers=1, mp_context=ctx) as ex:
                try:
                    results[i] = ex.submit(run_unit, jobs[i]).result()
                except Exception:
                    pass
            if results[i] is not None:
                break
    pending = [i for i in pending if results[i] is None]
    for i in pending:
        kind, qual, cls = jobs[i][0], jobs[i][1], jobs[i][2]
        results[i] = {"unit": qual, "qual": qual, "cls": cls, "kind": kind, "obligations": [], "unsupported": None,
                      "vacuous": False, "error": "the worker process verifying this unit died repeatedly (solver crash, out of memory, or the per-unit wall-clock limit)"}
    if deaths:
        print("note: %d unit result(s) were lost to dying worker processes and retried" % deaths)
    return results


def scan_assumptions():
    """Mechanical scan: no 'assume(' / 'trusted' markers in contract files outside deps.py and
    lemma programs' explicitly labelled hypotheses."""
    hits = []
    cdir = os.path.join(VERIF, "contracts")
    for name in sorted(os.listdir(cdir)):
        if not name.endswith(".py") or name == "deps.py":
            continue
        for i, line in enumerate(open(os.path.join(cdir, name), encoding="utf-8"), 1):
            s = line.strip()
            if s.startswith("#"):
                continue
            if "admit(" in s or "trusted=True" in s:
                hits.append("%s:%d %s" % (name, i, s[:80]))
    return hits


def load_findings():
    p = os.path.join(VERIF, "known_findings.json")
    if not os.path.exists(p):
        return {"findings": [], "fixed": []}
    return json.load(open(p))


def main(argv=None):
    argv = list(sys.argv[1:] if argv is None else argv)
    if not argv:
        print("usage: check <property-id> [--tier quick|thorough] [--replay path]")
        return 3
    prop = argv[0]
    tier = os.environ.get("VERIF_TIER", "quick")
    replay_path = None
    only = None
    record = False
    i = 1
    while i < len(argv):
        if argv[i] == "--tier":
            tier = argv[i + 1]
            i += 2
        elif argv[i] == "--replay":
            replay_path = argv[i + 1]
            i += 2
        elif argv[i] == "--record-baseline":
            record = True
            i += 1
        elif argv[i] == "--only":
            only = argv[i + 1]
            i += 2
        else:
            i += 1
    seed = int(os.environ.get("VERIF_SEED", "0") or 0)
    if replay_path:
        from pyvc import replay
        return replay.replay_file(replay_path)
    t0 = time.time()
    timeout_ms = 10000 if tier == "quick" else 60000
    os.environ["PYVC_TIMEOUT_MS"] = str(timeout_ms)
    os.environ["PYVC_TIER"] = tier          # the native bounded sweeps explore 5x more programs in the thorough tier
    table, reg = load_all()
    units = units_for(prop, reg, table)
    if only:
        units = [u for u in units if only in u[1]]
    jobs = [(k, q, c, prop, timeout_ms, None) for k, q, c in units]
    results = []
    nproc = min(16, max(1, len(jobs)))
    if jobs:
        results = run_jobs(jobs, nproc)
    from pyvc import report
    status = report.finish(prop, tier, seed, results, reg, table, time.time() - t0, timeout_ms)
    if record and status == 0:
        report.record_baseline(prop, results)
        print("baseline recorded for %s" % prop)
    return status


if __name__ == "__main__":
    sys.exit(main())
