"""pyvc symbolic executor / verification-condition generator.

One *unit* = one function of /repo verified against its sidecar contract for one
concrete receiver class, or one lemma program (ghost client code) verified against the
contracts of the functions it calls.  Calls are resolved against the callee's contract
(never its body) unless the callee is marked ``inline`` in the sidecar.
"""
import ast
from fractions import Fraction

import z3

from . import sorts as S
from .sorts import SV, Ty, INT, BOOL, REAL, XREAL, STR, NONE, OBJ, REF, SEQ, TUP, MAP, XR, PyObj
from .prover import Obligation


BUILTIN_TYPE_CODES = {"int": -1, "bool": -2, "float": -3, "str": -4}


class Unsupported(Exception):
    pass


class Raise:
    """An exceptional outcome.  ``cls`` is the (static) exception class name."""

    def __init__(self, cls, site=None, msg=None, origin=None):
        self.cls = cls
        self.site = site
        self.msg = msg
        self.origin = origin      # 'explicit' | 'implicit' | 'callee:<qual>'

    def __repr__(self):
        return "Raise(%s@%s)" % (self.cls, self.site)


EXC_PARENTS = {
    "BaseException": None, "Exception": "BaseException", "SystemExit": "BaseException",
    "ArithmeticError": "Exception", "ZeroDivisionError": "ArithmeticError",
    "OverflowError": "ArithmeticError",
    "LookupError": "Exception", "KeyError": "LookupError", "IndexError": "LookupError",
    "ValueError": "Exception", "StatisticsError": "ValueError", "TypeError": "Exception",
    "AttributeError": "Exception", "DSOLError": "Exception", "EventError": "Exception",
    "RuntimeError": "Exception", "NotImplementedError": "RuntimeError",
    "CallbackError": "Exception",      # pseudo: whatever a listener callback raises
    "ComplexResult": "Exception",      # pseudo: a float operation that would yield a complex
    "AssertionError": "Exception",
}


def exc_is(cls, parent):
    while cls is not None:
        if cls == parent:
            return True
        cls = EXC_PARENTS.get(cls, "Exception" if cls not in ("BaseException",) else None)
        if cls == "Exception" and parent == "Exception":
            return True
    return False


class State:
    __slots__ = ("pc", "env", "heap", "nalloc", "notes")

    def __init__(self):
        self.pc = []
        self.env = {}
        self.heap = {}
        self.nalloc = z3.IntVal(0)
        self.notes = []

    def fork(self):
        s = State()
        s.pc = list(self.pc)
        s.env = dict(self.env)
        s.heap = dict(self.heap)
        s.nalloc = self.nalloc
        s.notes = list(self.notes)
        return s

    def assume(self, f):
        if isinstance(f, bool):
            f = z3.BoolVal(f)
        self.pc.append(f)
        return self


def const_real(v):
    fr = Fraction(repr(float(v))) if not isinstance(v, int) else Fraction(v)
    return z3.RealVal(str(fr))


def mk_int(i):
    return SV(INT, z3.IntVal(i), const=i)


def mk_bool(b):
    if isinstance(b, bool):
        return SV(BOOL, z3.BoolVal(b), const=b)
    return SV(BOOL, b)


def mk_real(v):
    return SV(REAL, const_real(v), const=float(v))


def mk_str(s):
    return SV(STR, z3.StringVal(s), const=s)


def mk_none():
    return SV(NONE, z3.IntVal(0), const=None)


NUMERIC = ("int", "bool", "real", "xreal")


def is_num(sv):
    return sv.ty.kind in NUMERIC


class Engine:
    """Holds everything for one unit."""

    def __init__(self, table, reg, prover, self_class=None, unit="", props=()):
        self.table = table
        self.reg = reg
        self.prover = prover
        self.self_class = self_class      # concrete class self is verified for
        self.cur_class = None             # class in which the function being executed is defined
        self.unit = unit
        self.props = list(props)
        self.obls = []
        self.site_counter = {}
        self.spec = False
        self.old_state = None
        self.result = None
        self.dropped = {"docstring": 0, "annotation": 0, "log/print": 0, "sleep": 0}
        self.inlined = set()
        self.callees = set()
        self.inline_depth = 0
        self.paths = 0
        self.A0 = z3.Int("alloc0")
        self.loop_ord = {}
        self.func = None
        self.covers = []
        self.kwargs_name = None
        self.max_paths = 4000
        self.loop_step = None
        self.lenient_types = False
        self.lemma_mode = False
        self.effects_used = set()
        self.feas_checks = 0

    def A0_bump(self, st, amount):
        st.nalloc = st.nalloc + amount

    def feasible(self, st):
        """Cheap pruning of infeasible paths (sound: only 'unsat' prunes)."""
        self.feas_checks += 1
        return self.prover.sat(st.pc, timeout_ms=1000) != "unsat"

    # ------------------------------------------------------------------ obligations
    def site(self, kind):
        self.site_counter[kind] = self.site_counter.get(kind, 0) + 1
        return self.site_counter[kind]

    def oblige(self, name, kind, st, goal, eval_terms=None, extra_hyps=()):
        """Prove ``pc |- goal`` now; record the obligation (merging repeated names: an
        obligation is proved iff it is proved on every path on which it arises)."""
        hyps = list(st.pc) + list(extra_hyps)
        status, backend, secs, model, reason = self.prover.check_split(hyps, goal, eval_terms=eval_terms)
        ob = None
        for o in self.obls:
            if o.name == name:
                ob = o
                break
        if ob is None:
            ob = Obligation(name, kind)
            ob.unit = self.unit
            ob.props = list(self.props)
            self.obls.append(ob)
            ob.status = status
            ob.backend = backend
        else:
            order = {"refuted": 3, "unknown": 2, "proved": 1, "syntactic": 0}
            if order[status] > order[ob.status]:
                ob.status = status
            if backend != "syntactic" and ob.backend == "syntactic":
                ob.backend = backend
        ob.time_s += secs
        ob.paths += 1
        if status == "refuted" and ob.model is None:
            ob.model = model
            ob.detail = {"goal": str(z3.simplify(goal))[:600], "notes": list(st.notes)[-12:]}
        if status == "unknown":
            ob.reason = reason
        return status

    # ------------------------------------------------------------------ field keys
    def field_decl(self, cls, name):
        for c in self.table.mro(cls):
            d = self.reg.fields.get(c)
            if d and name in d:
                return c, d[name][0], d[name][1]
        return None

    def field_key(self, cls, name):
        d = self.field_decl(cls, name)
        if d is None:
            return None
        return "%s.%s" % (d[0], name)

    def heap_arr(self, st, key, ty):
        if key not in st.heap:
            st.heap[key] = z3.Const("H0_" + key, z3.ArraySort(z3.IntSort(), S.sort_of(ty)))
        return st.heap[key]

    def load_field(self, st, ref, cls, name):
        d = self.field_decl(cls, name)
        if d is None:
            raise Unsupported("undeclared field %s.%s" % (cls, name))
        dc, ty, ghost = d
        key = "%s.%s" % (dc, name)
        if key in getattr(self.reg, "auto_keys", ()) and not getattr(self, "_self_update", False):
            # a field outside the contracts is read (other than to update itself): what the code does next may depend on a value
            # about which no invariant is known
            self.__dict__.setdefault("auto_reads", set()).add(key)
        arr = self.heap_arr(st, key, ty)
        t = z3.simplify(z3.Select(arr, ref))
        sv = SV(ty, t)
        if ty.kind == "ref" and not self.spec:
            # refs stored in the heap were allocated before now
            st.assume(t < self.A0 + st.nalloc)
            if not ty.nullable:
                st.assume(t > 0)
            else:
                st.assume(t >= 0)
            if ty.cls in self.table.classes:
                # typed heap: stores into this field were checked against the declared class
                inst = self.isinstance_ref(t, ty.cls)
                st.assume(z3.Or(t == 0, inst) if ty.nullable else inst)
        return sv

    def store_field(self, st, ref, cls, name, val, what="store"):
        d = self.field_decl(cls, name)
        if d is None:
            raise Unsupported("undeclared field %s.%s" % (cls, name))
        dc, ty, ghost = d
        key = "%s.%s" % (dc, name)
        arr = self.heap_arr(st, key, ty)
        v, cond = self.coerce(val, ty)
        if cond is not None and not self.spec:
            if self.lenient_types:
                # constructor that validates *after* storing: an ill-typed store leaves an arbitrary
                # value (the normal-exit postconditions then have to re-establish the stored value)
                v = SV(ty, z3.If(cond, v.t, S.fresh("illtyped_" + name, S.sort_of(ty))))
            else:
                self.oblige("type.%s.%s" % (dc, name), "type", st, cond)
                st.assume(cond)
        st.heap[key] = z3.Store(arr, ref, v.t)

    # ------------------------------------------------------------------ coercion
    def coerce(self, sv, ty):
        """Return (SV of type ty, condition-or-None).  Raises Unsupported if impossible."""
        a, b = sv.ty.kind, ty.kind
        if sv.ty == ty:
            return sv, None
        if sv.items is not None and b == "tup":
            items = []
            cond = None
            for it, et in zip(sv.items, ty.elems):
                x, c = self.coerce(it, et)
                items.append(x)
                if c is not None:
                    cond = c if cond is None else z3.And(cond, c)
            ts = S.tuple_sort(ty)
            return SV(ty, ts.constructor(0)(*[i.t for i in items]), items=items), cond
        if b == "bool" and a == "bool":
            return sv, None
        if b == "int":
            if a == "bool":
                return SV(INT, z3.If(sv.t, 1, 0)), None
            if a == "obj":
                o = sv.t
                return SV(INT, z3.If(PyObj.is_O_bool(o), z3.If(PyObj.bval(o), 1, 0), PyObj.ival(o))), \
                    z3.Or(PyObj.is_O_int(o), PyObj.is_O_bool(o))
        if b == "real":
            if a in ("int", "bool"):
                return SV(REAL, S.xval(S.to_xr(sv))), None
            if a == "xreal":
                return SV(REAL, XR.val(sv.t)), XR.is_fin(sv.t)
            if a == "obj":
                x = S.to_xr(sv)
                o = sv.t
                return SV(REAL, XR.val(x)), z3.And(z3.Or(PyObj.is_O_int(o), PyObj.is_O_bool(o),
                                                           PyObj.is_O_float(o)), XR.is_fin(x))
        if b == "xreal":
            if a in ("int", "bool", "real"):
                return SV(XREAL, S.to_xr(sv)), None
            if a == "obj":
                o = sv.t
                return SV(XREAL, S.to_xr(sv)), z3.Or(PyObj.is_O_int(o), PyObj.is_O_bool(o),
                                                     PyObj.is_O_float(o))
        if b == "str" and a == "obj":
            return SV(STR, PyObj.sval(sv.t)), PyObj.is_O_str(sv.t)
        if b == "bool" and a == "obj":
            return SV(BOOL, PyObj.bval(sv.t)), PyObj.is_O_bool(sv.t)
        if b == "obj":
            return SV(OBJ, self.to_obj(sv)), None
        if b == "ref":
            if a == "ref":
                if self.table.is_subclass(sv.ty.cls, ty.cls):
                    cond = None
                    if sv.ty.nullable and not ty.nullable:
                        cond = sv.t != 0
                    return SV(ty, sv.t), cond
                if self.table.is_subclass(ty.cls, sv.ty.cls):
                    cond = self.isinstance_ref(sv.t, ty.cls)
                    if sv.ty.nullable and not ty.nullable:
                        cond = z3.And(cond, sv.t != 0)
                    return SV(ty, sv.t), cond
                # unrelated static classes (interfaces): trust dynamic check
                return SV(ty, sv.t), self.isinstance_ref(sv.t, ty.cls)
            if a == "none":
                if ty.nullable:
                    return SV(ty, z3.IntVal(0)), None
                return SV(ty, z3.IntVal(0)), z3.BoolVal(False)
            if a == "obj":
                o = sv.t
                if ty.nullable:
                    return SV(ty, z3.If(PyObj.is_O_none(o), 0, PyObj.rval(o))), \
                        z3.Or(PyObj.is_O_none(o), z3.And(PyObj.is_O_ref(o), self.isinstance_ref(PyObj.rval(o), ty.cls)))
                return SV(ty, PyObj.rval(o)), z3.And(PyObj.is_O_ref(o), self.isinstance_ref(PyObj.rval(o), ty.cls))
        if b == "none" and a == "none":
            return sv, None
        if b == "seq" and a == "seq":
            if sv.ty.elem == ty.elem:
                return sv, None
        if b == "set" and a == "set":
            return SV(ty, sv.t), None
        raise Unsupported("cannot coerce %r to %r" % (sv.ty, ty))

    def to_obj(self, sv):
        k = sv.ty.kind
        if k == "obj":
            return sv.t
        if k == "int":
            return PyObj.O_int(sv.t)
        if k == "bool":
            return PyObj.O_bool(sv.t)
        if k == "real":
            return PyObj.O_float(XR.fin(sv.t))
        if k == "xreal":
            return PyObj.O_float(sv.t)
        if k == "str":
            return PyObj.O_str(sv.t)
        if k == "none":
            return PyObj.O_none
        if k == "ref":
            if sv.ty.nullable:
                return z3.If(sv.t == 0, PyObj.O_none, PyObj.O_ref(sv.t))
            return PyObj.O_ref(sv.t)
        if k in ("kwargs", "exc"):
            return PyObj.O_other(sv.t)
        if k == "enum":
            return PyObj.O_other(sv.t + 1000000 * self.class_id(sv.ty.cls))
        raise Unsupported("cannot box %r" % (sv.ty,))

    # ------------------------------------------------------------------ classes / isinstance
    def class_id(self, cls):
        return self.reg.class_id(cls)

    def is_abstract(self, cname):
        ci = self.table.classes.get(cname)
        if ci is None:
            return False
        for c in self.table.mro(cname):
            cc = self.table.classes.get(c)
            if cc is None:
                continue
            for m, f in cc.methods.items():
                if f.is_abstract:
                    # abstract unless overridden by a concrete method earlier in the MRO
                    impl = self.table.resolve(cname, m)
                    if impl is not None and impl.is_abstract:
                        return True
        return False

    def isinstance_ref(self, ref, cls):
        subs = self.table.subclasses(cls) if cls in self.table.classes else [cls]
        if not subs:
            subs = [cls]
        # abstract classes have no direct instances (closed world), unless nothing concrete exists
        concrete = [c for c in subs if not self.is_abstract(c)]
        if concrete:
            subs = concrete
        return z3.Or(*[S.typeof(ref) == self.class_id(c) for c in subs])

    def isinstance_sv(self, sv, cname):
        """z3 Bool: isinstance(sv, cname) for builtin names and classes of the table."""
        k = sv.ty.kind
        if cname in ("int", "float", "str", "bool", "dict", "list", "tuple", "NoneType"):
            if k == "obj":
                o = sv.t
                if cname == "int":
                    return z3.Or(PyObj.is_O_int(o), PyObj.is_O_bool(o))
                if cname == "bool":
                    return PyObj.is_O_bool(o)
                if cname == "float":
                    fl = PyObj.is_O_float(o)
                    if "Quantity" in self.table.classes:
                        fl = z3.Or(fl, z3.And(PyObj.is_O_ref(o), self.isinstance_ref(PyObj.rval(o), "Quantity")))
                    return fl
                if cname == "str":
                    return PyObj.is_O_str(o)
                if cname in ("dict", "list", "tuple"):
                    tag = {"dict": 1, "list": 2, "tuple": 3}[cname]
                    return z3.And(PyObj.is_O_other(o), self.reg.ufun("other_kind", z3.IntSort(), z3.IntSort())(PyObj.oid(o)) == tag)
                return PyObj.is_O_none(o)
            table = {"int": ("int", "bool"), "bool": ("bool",), "float": ("real", "xreal"),
                     "str": ("str",), "dict": ("map",), "list": ("seq",), "tuple": ("tup",),
                     "NoneType": ("none",)}
            if k == "ref":
                if cname == "float" and "Quantity" in self.table.classes:
                    if self.table.is_subclass(sv.ty.cls, "Quantity"):
                        return z3.BoolVal(True) if not sv.ty.nullable else sv.t != 0
                    return z3.And(sv.t != 0, self.isinstance_ref(sv.t, "Quantity"))
                return z3.BoolVal(False)
            return z3.BoolVal(k in table[cname])
        # a class of the table (or unknown class name)
        if k == "ref":
            if self.table.is_subclass(sv.ty.cls, cname):
                return z3.BoolVal(True) if not sv.ty.nullable else sv.t != 0
            c = self.isinstance_ref(sv.t, cname)
            return z3.And(sv.t != 0, c) if sv.ty.nullable else c
        if k == "obj":
            o = sv.t
            return z3.And(PyObj.is_O_ref(o), self.isinstance_ref(PyObj.rval(o), cname))
        return z3.BoolVal(False)

    # ------------------------------------------------------------------ truthiness
    def truth(self, sv):
        k = sv.ty.kind
        if k == "bool":
            return sv.t
        if k == "int":
            return sv.t != 0
        if k == "real":
            return sv.t != 0
        if k == "xreal":
            return z3.Not(z3.And(XR.is_fin(sv.t), XR.val(sv.t) == 0))
        if k == "str":
            return z3.Length(sv.t) > 0
        if k == "none":
            return z3.BoolVal(False)
        if k == "ref":
            return sv.t != 0 if sv.ty.nullable else z3.BoolVal(True)
        if k == "seq":
            return z3.Length(sv.t) > 0
        if k == "map":
            return z3.Length(self.map_keys(sv)) > 0
        if k == "tup":
            return z3.BoolVal(len(sv.ty.elems) > 0)
        if k == "obj":
            o = sv.t
            x = PyObj.fval(o)
            return z3.If(PyObj.is_O_bool(o), PyObj.bval(o),
                   z3.If(PyObj.is_O_int(o), PyObj.ival(o) != 0,
                   z3.If(PyObj.is_O_float(o), z3.Not(z3.And(XR.is_fin(x), XR.val(x) == 0)),
                   z3.If(PyObj.is_O_str(o), z3.Length(PyObj.sval(o)) > 0,
                   z3.If(PyObj.is_O_none(o), False,
                   z3.If(PyObj.is_O_ref(o), True,
                         self.reg.ufun("other_truth", z3.IntSort(), z3.BoolSort())(PyObj.oid(o))))))))
        raise Unsupported("truth of %r" % (sv.ty,))

    # ------------------------------------------------------------------ maps (ordered dicts)
    def map_keys(self, sv):
        ms = S.map_sort(sv.ty)
        return ms.accessor(0, 0)(sv.t)

    def map_vals(self, sv):
        ms = S.map_sort(sv.ty)
        return ms.accessor(0, 1)(sv.t)

    def map_mk(self, ty, keys, vals):
        ms = S.map_sort(ty)
        return SV(ty, ms.constructor(0)(keys, vals))

    def map_has(self, m, k):
        return z3.Contains(self.map_keys(m), z3.Unit(S.enc(k)))

    # ------------------------------------------------------------------ expressions
    def ev(self, node, st):
        """Evaluate an expression; returns list of (state, SV|Raise)."""
        meth = getattr(self, "ev_" + type(node).__name__, None)
        if meth is None:
            raise Unsupported("expression %s" % type(node).__name__)
        return meth(node, st)

    def ev1(self, node, st):
        """Spec-mode single-valued evaluation."""
        outs = self.ev(node, st)
        outs = [o for o in outs if not isinstance(o[1], Raise)]
        if len(outs) != 1:
            raise Unsupported("spec expression is not single valued: %s" % ast.unparse(node))
        return outs[0][1]

    def ev_seq(self, nodes, st):
        """Evaluate expressions left to right.  Returns list of (state, [SV...]|Raise)."""
        outs = [(st, [])]
        for n in nodes:
            nxt = []
            for s, vals in outs:
                if isinstance(vals, Raise):
                    nxt.append((s, vals))
                    continue
                for s2, v in self.ev(n, s):
                    if isinstance(v, Raise):
                        nxt.append((s2, v))
                    else:
                        nxt.append((s2, vals + [v]))
            outs = nxt
        return outs

    def ev_Constant(self, node, st):
        v = node.value
        if isinstance(v, bool):
            return [(st, mk_bool(v))]
        if isinstance(v, int):
            return [(st, mk_int(v))]
        if isinstance(v, float):
            return [(st, mk_real(v))]
        if isinstance(v, str):
            return [(st, mk_str(v))]
        if v is None:
            return [(st, mk_none())]
        raise Unsupported("constant %r" % (v,))

    def ev_Name(self, node, st):
        n = node.id
        if n in st.env:
            v = st.env[n]
            self.check_stale(v, st, n)
            return [(st, v)]
        if self.spec:
            if n == "result":
                if self.result is None:
                    raise Unsupported("result not available")
                return [(st, self.result)]
            if n == "True":
                return [(st, mk_bool(True))]
            if n == "nan":
                return [(st, SV(XREAL, XR.nan))]
            if n == "inf":
                return [(st, SV(XREAL, XR.pinf))]
        if self.spec:
            # a local the contract names as it was called when the contract was written (baseline/locals.json): follow a
            # pure renaming of that local in the current source
            m = self.local_alias().get(n)
            if m is not None and m in st.env:
                v = st.env[m]
                self.check_stale(v, st, m)
                return [(st, v)]
        v = self.global_const(n)
        if v is not None:
            return [(st, v)]
        if n in BUILTIN_TYPE_CODES and self.reg.specfuns.get("type_of_value"):
            # the builtin class objects int / bool / float / str as values (type(x) == float): the codes of type_of_value
            return [(st, SV(Ty("type"), z3.IntVal(BUILTIN_TYPE_CODES[n])))]
        if n in self.table.classes:
            return [(st, SV(Ty("type"), z3.IntVal(self.class_id(n))))]
        raise Unsupported("name %s" % n)

    _RECORDED_LOCALS = None

    def local_alias(self):
        """{name used in the sidecar specs -> name the same local has in the current source} for the function being executed.
        The recorded names are those of the tree the contracts were written against; the mapping aligns the recorded and the
        current sequence of first bindings and pairs up the replaced stretches of equal length.  It only decides which
        program variable a spec name denotes -- every obligation is still checked on the current code."""
        f = self.func
        q = getattr(f, "qual", None)
        if q is None or not hasattr(f, "store_names"):
            return {}
        cache = self.__dict__.setdefault("_alias_cache", {})
        if q not in cache:
            if Engine._RECORDED_LOCALS is None:
                import json
                import os
                p = os.path.join(os.path.dirname(os.path.dirname(os.path.abspath(__file__))), "baseline", "locals.json")
                try:
                    with open(p) as fh:
                        Engine._RECORDED_LOCALS = json.load(fh)
                except OSError:
                    Engine._RECORDED_LOCALS = {}
            rec = Engine._RECORDED_LOCALS.get(q)
            cur = f.store_names()
            m = {}
            if rec and rec != cur:
                import difflib
                for tag, i1, i2, j1, j2 in difflib.SequenceMatcher(None, rec, cur, autojunk=False).get_opcodes():
                    if tag == "replace" and i2 - i1 == j2 - j1:
                        for a, b in zip(rec[i1:i2], cur[j1:j2]):
                            m[a] = b      # consulted only where the recorded name is not bound in the current scope
            cache[q] = m
        return cache[q]

    def check_stale(self, v, st, n):
        org = getattr(v, "const", None)
        if isinstance(org, tuple) and org and org[0] == "heapalias":
            key, arr = org[1], org[2]
            if key in st.heap and not st.heap[key].eq(arr):
                raise Unsupported("local %s aliases container %s that was modified since" % (n, key))

    def global_const(self, n):
        # module-level constants of the module the current function lives in
        mods = []
        if self.func is not None:
            mods.append(self.func.module)
        for m in mods:
            c = self.table.module_consts.get(m, {}).get(n)
            if c is not None and isinstance(c, ast.Constant):
                return self.ev_Constant(c, None)[0][1]
        return None

    def ev_JoinedStr(self, node, st):
        # f-string: evaluate embedded expressions (they may raise), result opaque
        exprs = [v.value for v in node.values if isinstance(v, ast.FormattedValue)]
        outs = []
        if self.spec:
            return [(st, SV(STR, S.fresh("fstr", z3.StringSort())))]
        for s, vals in self.ev_seq(exprs, st):
            if isinstance(vals, Raise):
                outs.append((s, vals))
            else:
                if not exprs:
                    txt = "".join(v.value for v in node.values if isinstance(v, ast.Constant))
                    outs.append((s, mk_str(txt)))
                else:
                    outs.append((s, SV(STR, S.fresh("fstr", z3.StringSort()))))
        return outs

    def ev_Tuple(self, node, st):
        outs = []
        for s, vals in self.ev_seq(node.elts, st):
            if isinstance(vals, Raise):
                outs.append((s, vals))
            else:
                outs.append((s, self.mk_tuple(vals)))
        return outs

    def mk_tuple(self, vals):
        ty = TUP(*[v.ty for v in vals])
        return SV(ty, None, items=list(vals))

    def pack(self, sv):
        """Make sure a tuple SV has a z3 term."""
        if sv.ty.kind == "tup" and sv.t is None:
            ts = S.tuple_sort(sv.ty)
            sv.t = ts.constructor(0)(*[self.pack(i).t for i in sv.items])
        return sv

    def unpack(self, sv):
        if sv.items is not None:
            return sv.items
        ts = S.tuple_sort(sv.ty)
        return [SV(et, ts.accessor(0, i)(sv.t)) for i, et in enumerate(sv.ty.elems)]

    def ev_List(self, node, st):
        outs = []
        for s, vals in self.ev_seq(node.elts, st):
            if isinstance(vals, Raise):
                outs.append((s, vals))
                continue
            if not vals:
                outs.append((s, SV(Ty("emptylist"), None, const="fresh")))
                continue
            et = vals[0].ty
            for v in vals:
                self.pack(v)
            t = z3.Concat(*[z3.Unit(S.enc(v)) for v in vals]) if len(vals) > 1 else z3.Unit(S.enc(vals[0]))
            outs.append((s, SV(SEQ(et), t, const="fresh")))
        return outs

    def ev_IfExp(self, node, st):
        outs = []
        for s, c in self.ev(node.test, st):
            if isinstance(c, Raise):
                outs.append((s, c))
                continue
            cond = self.truth(c)
            if self.spec:
                a = self.ev1(node.body, s)
                b = self.ev1(node.orelse, s)
                a, b = self.unify(a, b)
                outs.append((s, SV(a.ty, z3.If(cond, a.t, b.t))))
                continue
            s1 = s.fork().assume(cond)
            s2 = s.fork().assume(z3.Not(cond))
            outs += self.ev(node.body, s1)
            outs += self.ev(node.orelse, s2)
        return outs

    def unify(self, a, b):
        """Bring two values to a common type (for ite / min / max)."""
        if a.ty == b.ty:
            self.pack(a), self.pack(b)
            return a, b
        ka, kb = a.ty.kind, b.ty.kind
        if ka in NUMERIC and kb in NUMERIC:
            if "xreal" in (ka, kb):
                return SV(XREAL, S.to_xr(a)), SV(XREAL, S.to_xr(b))
            if "real" in (ka, kb):
                return self.coerce(a, REAL)[0], self.coerce(b, REAL)[0]
            return self.coerce(a, INT)[0], self.coerce(b, INT)[0]
        if ka == "none" and kb == "ref":
            return SV(REF(b.ty.cls, True), z3.IntVal(0)), SV(REF(b.ty.cls, True), b.t)
        if kb == "none" and ka == "ref":
            return SV(REF(a.ty.cls, True), a.t), SV(REF(a.ty.cls, True), z3.IntVal(0))
        if ka == "ref" and kb == "ref":
            return SV(REF(a.ty.cls, True), a.t), SV(REF(a.ty.cls, True), b.t)
        return SV(OBJ, self.to_obj(a)), SV(OBJ, self.to_obj(b))

    def ev_BoolOp(self, node, st):
        is_and = isinstance(node.op, ast.And)
        if self.spec:
            vals = [self.ev1(v, st) for v in node.values]
            ts = [self.truth(v) for v in vals]
            return [(st, mk_bool(z3.And(*ts) if is_and else z3.Or(*ts)))]
        outs = []
        pending = [(st, None)]
        for i, vn in enumerate(node.values):
            last = i == len(node.values) - 1
            nxt = []
            for s, _ in pending:
                for s2, v in self.ev(vn, s):
                    if isinstance(v, Raise):
                        outs.append((s2, v))
                        continue
                    if last:
                        outs.append((s2, v))
                        continue
                    c = self.truth(v)
                    # short circuit
                    stop = s2.fork().assume(z3.Not(c) if is_and else c)
                    cont = s2.fork().assume(c if is_and else z3.Not(c))
                    outs.append((stop, v))
                    nxt.append((cont, None))
            pending = nxt
        return outs

    def ev_UnaryOp(self, node, st):
        outs = []
        for s, v in self.ev(node.operand, st):
            if isinstance(v, Raise):
                outs.append((s, v))
                continue
            if isinstance(node.op, ast.Not):
                outs.append((s, mk_bool(z3.Not(self.truth(v)))))
            elif isinstance(node.op, ast.USub):
                outs += self.neg(v, s)
            elif isinstance(node.op, ast.UAdd):
                outs.append((s, v))
            else:
                raise Unsupported("unary op")
        return outs

    def neg(self, v, s):
        k = v.ty.kind
        if k in ("int", "bool"):
            t = self.coerce(v, INT)[0].t
            return [(s, SV(INT, -t, const=(-v.const if isinstance(v.const, int) else None)))]
        if k == "real":
            return [(s, SV(REAL, -v.t))]
        if k == "xreal":
            return [(s, SV(XREAL, z3.simplify(S.xr_neg(v.t))))]
        if k == "obj":
            return self.implicit(s, "TypeError", z3.Not(self.is_numeric_obj(v)),
                                 lambda s2: [(s2, SV(XREAL, S.xr_neg(S.to_xr(v))))])
        if k == "ref":
            return self.dunder_call(v, "__neg__", [], s)
        raise Unsupported("negation of %r" % (v.ty,))

    def is_numeric_obj(self, v):
        o = v.t
        return z3.Or(PyObj.is_O_int(o), PyObj.is_O_bool(o), PyObj.is_O_float(o))

    def implicit(self, st, exc, cond, cont):
        """An operation that raises ``exc`` when ``cond`` holds.  In spec mode ignored.
        Otherwise: try to prove the condition unreachable (obligation recorded only if
        it is not trivially false); if not provable fork a raising path."""
        if self.spec:
            return cont(st)
        c = z3.simplify(cond) if not isinstance(cond, bool) else z3.BoolVal(cond)
        if z3.is_false(c):
            return cont(st)
        k = self.site(exc)
        status, backend, secs, model, reason = self.prover.check(st.pc, z3.Not(c), want_model=False,
                                                                timeout_ms=min(3000, self.prover.timeout_ms))
        if status == "proved":
            ob = Obligation("noexc.%s#%d" % (exc, k), "noexc-site")
            ob.unit, ob.props, ob.backend, ob.time_s, ob.paths = self.unit, list(self.props), backend, secs, 1
            # several paths may pass the same syntactic site; merge
            self.obls.append(ob)
            return cont(st)
        good = st.fork().assume(z3.Not(c))
        bad = st.fork().assume(c)
        bad.notes.append("implicit %s at site #%d" % (exc, k))
        return cont(good) + [(bad, Raise(exc, site="%s#%d" % (exc, k), origin="implicit"))]

    # -- arithmetic
    def ev_BinOp(self, node, st):
        outs = []
        for s, vals in self.ev_seq([node.left, node.right], st):
            if isinstance(vals, Raise):
                outs.append((s, vals))
                continue
            outs += self.binop(node.op, vals[0], vals[1], s)
        return outs

    def binop(self, op, a, b, s):
        ka, kb = a.ty.kind, b.ty.kind
        # string concatenation / repetition
        if isinstance(op, ast.Add) and ka == "str":
            if kb == "str":
                return [(s, SV(STR, z3.Concat(a.t, b.t)))]
            if kb == "obj":
                return self.implicit(s, "TypeError", z3.Not(PyObj.is_O_str(b.t)),
                                     lambda s2: [(s2, SV(STR, z3.Concat(a.t, PyObj.sval(b.t))))])
            return self.implicit(s, "TypeError", True, lambda s2: [])
        if isinstance(op, ast.Add) and kb == "str":
            return self.implicit(s, "TypeError", True, lambda s2: [])
        if isinstance(op, ast.Mult) and ka == "str" and kb == "int":
            return [(s, SV(STR, S.fresh("strrep", z3.StringSort())))]
        if isinstance(op, ast.Mod) and ka == "str":
            return [(s, SV(STR, S.fresh("strfmt", z3.StringSort())))]
        if ka == "ref" or kb == "ref":
            return self.binop_ref(op, a, b, s)
        if not self.spec and (ka == "obj" or kb == "obj"):
            a, b = self.refine_obj(a, s), self.refine_obj(b, s)
            ka, kb = a.ty.kind, b.ty.kind
            if ka != "obj" and kb != "obj":
                return self.binop(op, a, b, s)
        if ka == "obj" or kb == "obj":
            bad = []
            if ka == "obj":
                bad.append(z3.Not(self.is_numeric_obj(a)))
            elif ka not in NUMERIC:
                raise Unsupported("binop on %r" % (a.ty,))
            if kb == "obj":
                bad.append(z3.Not(self.is_numeric_obj(b)))
            elif kb not in NUMERIC:
                raise Unsupported("binop on %r" % (b.ty,))
            xa, xb = SV(XREAL, S.to_xr(a)), SV(XREAL, S.to_xr(b))
            # NOTE: int/int distinction is lost for obj operands: '/' and arithmetic are done in XR
            return self.implicit(s, "TypeError", z3.Or(*bad), lambda s2: self.arith(op, xa, xb, s2))
        if ka in NUMERIC and kb in NUMERIC:
            return self.arith(op, a, b, s)
        if ka == "seq" and kb == "seq" and isinstance(op, ast.Add):
            return [(s, SV(a.ty, z3.Concat(a.t, b.t), const="fresh"))]
        raise Unsupported("binop %s on %r,%r" % (type(op).__name__, a.ty, b.ty))

    def binop_ref(self, op, a, b, s):
        names = {ast.Add: "add", ast.Sub: "sub", ast.Mult: "mul", ast.Div: "truediv"}
        nm = names.get(type(op))
        if nm is None:
            raise Unsupported("operator on objects")
        if a.ty.kind == "ref":
            return self.dunder_call(a, "__%s__" % nm, [b], s)
        return self.dunder_call(b, "__r%s__" % nm, [a], s)

    def dunder_call(self, recv, name, args, s):
        f = self.table.resolve(recv.ty.cls, name)
        if f is None:
            return self.implicit(s, "TypeError", True, lambda s2: [])
        return self.call_function(f, recv, args, {}, s, recv_static=recv.ty.cls)

    def arith(self, op, a, b, s):
        ka, kb = a.ty.kind, b.ty.kind
        both_int = ka in ("int", "bool") and kb in ("int", "bool")
        if both_int:
            x, y = self.coerce(a, INT)[0].t, self.coerce(b, INT)[0].t
            ca, cb = a.const, b.const
            if isinstance(op, ast.Add):
                return [(s, SV(INT, x + y))]
            if isinstance(op, ast.Sub):
                return [(s, SV(INT, x - y))]
            if isinstance(op, ast.Mult):
                return [(s, SV(INT, x * y))]
            if isinstance(op, ast.Div):
                return self.implicit(s, "ZeroDivisionError", y == 0,
                                     lambda s2: [(s2, SV(REAL, z3.ToReal(x) / z3.ToReal(y)))])
            if isinstance(op, ast.FloorDiv):
                # python floor division == z3 div for positive divisor; general: floor
                q = z3.If(y > 0, x / y, (-x) / (-y))
                return self.implicit(s, "ZeroDivisionError", y == 0, lambda s2: [(s2, SV(INT, q))])
            if isinstance(op, ast.Mod):
                r = z3.If(y > 0, x % y, -((-x) % (-y)))
                return self.implicit(s, "ZeroDivisionError", y == 0, lambda s2: [(s2, SV(INT, r))])
            if isinstance(op, ast.Pow):
                if isinstance(cb, int) and 0 <= cb <= 8:
                    r = z3.IntVal(1)
                    for _ in range(cb):
                        r = r * x
                    return [(s, SV(INT, r))]
                raise Unsupported("int ** non-constant")
            raise Unsupported("int op %s" % type(op).__name__)
        if not self.spec:
            a, b = self.try_finite(a, s), self.try_finite(b, s)
            ka, kb = a.ty.kind, b.ty.kind
        finite = ka != "xreal" and kb != "xreal"
        if finite:
            x, y = self.coerce(a, REAL)[0].t, self.coerce(b, REAL)[0].t
            if isinstance(op, ast.Add):
                return [(s, SV(REAL, x + y))]
            if isinstance(op, ast.Sub):
                return [(s, SV(REAL, x - y))]
            if isinstance(op, ast.Mult):
                return [(s, SV(REAL, x * y))]
            if isinstance(op, ast.Div):
                return self.implicit(s, "ZeroDivisionError", y == 0, lambda s2: [(s2, SV(REAL, x / y))])
            if isinstance(op, ast.Pow):
                return self.real_pow(a, b, x, y, s)
            if isinstance(op, ast.Mod):
                fm = self.reg.ufun("fmod", z3.RealSort(), z3.RealSort(), z3.RealSort())
                return self.implicit(s, "ZeroDivisionError", y == 0, lambda s2: [(s2, SV(REAL, fm(x, y)))])
            if isinstance(op, ast.FloorDiv):
                return self.implicit(s, "ZeroDivisionError", y == 0,
                                     lambda s2: [(s2, SV(REAL, z3.ToReal(z3.ToInt(x / y))))])
            raise Unsupported("float op %s" % type(op).__name__)
        x, y = S.to_xr(a), S.to_xr(b)
        if isinstance(op, ast.Add):
            return [(s, SV(XREAL, z3.simplify(S.xr_add(x, y))))]
        if isinstance(op, ast.Sub):
            return [(s, SV(XREAL, z3.simplify(S.xr_sub(x, y))))]
        if isinstance(op, ast.Mult):
            return [(s, SV(XREAL, z3.simplify(S.xr_mul(x, y))))]
        if isinstance(op, ast.Div):
            return self.implicit(s, "ZeroDivisionError", z3.And(XR.is_fin(y), XR.val(y) == 0),
                                 lambda s2: [(s2, SV(XREAL, z3.simplify(S.xr_div(x, y))))])
        if isinstance(op, ast.Pow):
            return self.xr_pow(a, b, x, y, s)
        raise Unsupported("xreal op %s" % type(op).__name__)

    def refine_obj(self, v, s):
        """Refinement by proof of a dynamic value to int / float / str when the path
        condition forces the tag."""
        if v.ty.kind != "obj":
            return v
        o = v.t
        for goal, mk in ((z3.Or(PyObj.is_O_int(o), PyObj.is_O_bool(o)),
                          lambda: SV(INT, z3.If(PyObj.is_O_bool(o), z3.If(PyObj.bval(o), 1, 0), PyObj.ival(o)))),
                         (PyObj.is_O_float(o), lambda: SV(XREAL, PyObj.fval(o))),
                         (PyObj.is_O_str(o), lambda: SV(STR, PyObj.sval(o)))):
            st, _, _, _, _ = self.prover.check(self.ground_pc(s), goal, want_model=False, timeout_ms=1500, axioms=False)
            if st == "proved":
                return mk()
        return v

    def ground_pc(self, s):
        """The quantifier-free part of the path condition (enough for type/finiteness refinements;
        fewer hypotheses is always sound for a proof)."""
        from .prover import split_hyps, has_quantifier
        return [h for h in split_hyps(s.pc) if not has_quantifier(h)]

    def try_finite(self, v, s):
        """Refinement by proof: an XREAL operand that the path condition forces to be finite
        is replaced by its real value (keeps the arithmetic in plain NRA)."""
        if v.ty.kind != "xreal":
            return v
        t = z3.simplify(v.t)
        if z3.is_app(t) and t.decl().eq(XR.fin):
            return SV(REAL, t.arg(0))
        st, _, _, _, _ = self.prover.check(self.ground_pc(s), XR.is_fin(t), want_model=False, timeout_ms=1500, axioms=False)
        if st == "proved":
            return SV(REAL, z3.simplify(XR.val(t)))
        return v

    def powf(self):
        return self.reg.ufun("powf", z3.RealSort(), z3.RealSort(), z3.RealSort())

    def real_pow(self, a, b, x, y, s):
        """x ** y on finite reals.  Integer constant exponents are expanded; otherwise an
        uninterpreted powf with sign axioms (added as assumptions at the use site)."""
        cb = b.const
        if isinstance(cb, (int, float)) and float(cb).is_integer() and 0 <= cb <= 8:
            r = z3.RealVal(1)
            for _ in range(int(cb)):
                r = r * x
            return [(s, SV(REAL, r))]
        if isinstance(cb, (int, float)) and float(cb).is_integer() and -8 <= cb < 0:
            r = z3.RealVal(1)
            for _ in range(int(-cb)):
                r = r * x
            return self.implicit(s, "ZeroDivisionError", x == 0, lambda s2: [(s2, SV(REAL, 1 / r))])
        pw = self.powf()(x, y)

        def cont(s2):
            s2.assume(z3.Implies(x > 0, pw > 0))
            s2.assume(z3.Implies(z3.And(x == 0, y > 0), pw == 0))
            s2.assume(z3.Implies(y == 0, pw == 1))
            s2.assume(z3.Implies(z3.And(x >= 1, y >= 0), pw >= 1))
            s2.assume(z3.Implies(z3.And(x > 0, x <= 1, y >= 0), pw <= 1))
            return [(s2, SV(REAL, pw))]
        # negative base with non-integer exponent yields a complex number; 0 ** negative raises
        nonint = z3.Not(z3.IsInt(y))
        outs = self.implicit(s, "ZeroDivisionError", z3.And(x == 0, y < 0),
                             lambda s2: self.implicit(s2, "ComplexResult", z3.And(x < 0, nonint), cont))
        return outs

    def xr_pow(self, a, b, x, y, s):
        # only fin ** fin is given a value; special values make the result opaque
        fa, fb = XR.is_fin(x), XR.is_fin(y)
        av, bv = SV(REAL, XR.val(x)), SV(REAL, XR.val(y), const=b.const if b.ty.kind != "xreal" else None)
        outs = []
        s_f = s.fork().assume(z3.And(fa, fb))
        for s2, v in self.real_pow(av, bv, av.t, bv.t, s_f):
            if isinstance(v, Raise):
                outs.append((s2, v))
            else:
                outs.append((s2, SV(XREAL, XR.fin(v.t))))
        s_n = s.fork().assume(z3.Not(z3.And(fa, fb)))
        outs.append((s_n, SV(XREAL, S.fresh("powx", XR))))
        return outs

    # -- comparisons
    def ev_Compare(self, node, st):
        if len(node.ops) == 1:
            outs = []
            for s, vals in self.ev_seq([node.left, node.comparators[0]], st):
                if isinstance(vals, Raise):
                    outs.append((s, vals))
                    continue
                outs += self.compare(node.ops[0], vals[0], vals[1], s)
            return outs
        # chained: a < b < c  ==  a < b and b < c  (b evaluated once)
        outs = []
        for s, vals in self.ev_seq([node.left] + node.comparators, st):
            if isinstance(vals, Raise):
                outs.append((s, vals))
                continue
            cur = [(s, None)]
            acc = []
            for i, op in enumerate(node.ops):
                nxt = []
                for s2, prev in cur:
                    for s3, r in self.compare(op, vals[i], vals[i + 1], s2):
                        if isinstance(r, Raise):
                            outs.append((s3, r))
                        else:
                            t = r.t if prev is None else z3.And(prev, r.t)
                            nxt.append((s3, t))
                cur = nxt
            for s2, t in cur:
                outs.append((s2, mk_bool(t)))
        return outs

    def compare(self, op, a, b, s):
        ka, kb = a.ty.kind, b.ty.kind
        if isinstance(op, (ast.Is, ast.IsNot)):
            t = self.identical(a, b)
            return [(s, mk_bool(t if isinstance(op, ast.Is) else z3.Not(t)))]
        if isinstance(op, (ast.In, ast.NotIn)):
            outs = []
            for s2, r in self.contains(b, a, s):
                if isinstance(r, Raise):
                    outs.append((s2, r))
                else:
                    outs.append((s2, mk_bool(r.t if isinstance(op, ast.In) else z3.Not(r.t))))
            return outs
        if isinstance(op, (ast.Eq, ast.NotEq)):
            outs = []
            for s2, r in self.equals(a, b, s):
                if isinstance(r, Raise):
                    outs.append((s2, r))
                else:
                    outs.append((s2, mk_bool(r.t if isinstance(op, ast.Eq) else z3.Not(r.t))))
            return outs
        # ordering
        if ka == "ref" or kb == "ref":
            return self.order_ref(op, a, b, s)
        if ka == "str" and kb == "str":
            fn = {ast.Lt: lambda x, y: x < y, ast.LtE: lambda x, y: x <= y,
                  ast.Gt: lambda x, y: y < x, ast.GtE: lambda x, y: y <= x}[type(op)]
            return [(s, mk_bool(fn(a.t, b.t)))]
        if ka == "tup" and kb == "tup":
            return [(s, mk_bool(self.tuple_order(op, a, b)))]
        bad = []
        for v in (a, b):
            if v.ty.kind == "obj":
                bad.append(z3.Not(self.is_numeric_obj(v)))
            elif v.ty.kind == "none":
                bad.append(z3.BoolVal(True))
            elif v.ty.kind not in NUMERIC:
                raise Unsupported("ordering on %r" % (v.ty,))
        if any(v.ty.kind == "none" for v in (a, b)):
            return self.implicit(s, "TypeError", True, lambda s2: [])
        r = self.num_order(op, a, b)
        if bad:
            return self.implicit(s, "TypeError", z3.Or(*bad), lambda s2: [(s2, mk_bool(r))])
        return [(s, mk_bool(r))]

    def num_order(self, op, a, b):
        ka, kb = a.ty.kind, b.ty.kind
        if ka in ("int", "bool") and kb in ("int", "bool"):
            x, y = self.coerce(a, INT)[0].t, self.coerce(b, INT)[0].t
        elif "xreal" in (ka, kb) or "obj" in (ka, kb):
            x, y = S.to_xr(a), S.to_xr(b)
            fn = {ast.Lt: lambda: S.xr_lt(x, y), ast.LtE: lambda: S.xr_le(x, y),
                  ast.Gt: lambda: S.xr_lt(y, x), ast.GtE: lambda: S.xr_le(y, x)}[type(op)]
            return z3.simplify(fn())
        else:
            x, y = self.coerce(a, REAL)[0].t, self.coerce(b, REAL)[0].t
        return {ast.Lt: x < y, ast.LtE: x <= y, ast.Gt: x > y, ast.GtE: x >= y}[type(op)]

    def tuple_order(self, op, a, b):
        """Lexicographic order on tuples of numerics (trailing ref component compared by
        the caller's assumption that earlier components already differ)."""
        ia, ib = self.unpack(a), self.unpack(b)
        lt = z3.BoolVal(False)
        eq = z3.BoolVal(True)
        for x, y in zip(ia, ib):
            if x.ty.kind in NUMERIC and y.ty.kind in NUMERIC:
                l = self.num_order(ast.Lt(), x, y)
                e = self.num_eq(x, y)
            else:
                raise Unsupported("tuple order on non numeric component")
            lt = z3.Or(lt, z3.And(eq, l))
            eq = z3.And(eq, e)
        if isinstance(op, ast.Lt):
            return lt
        if isinstance(op, ast.LtE):
            return z3.Or(lt, eq)
        if isinstance(op, ast.Gt):
            return z3.Not(z3.Or(lt, eq))
        return z3.Not(lt)

    def order_ref(self, op, a, b, s):
        names = {ast.Lt: ("__lt__", "__gt__"), ast.LtE: ("__le__", "__ge__"),
                 ast.Gt: ("__gt__", "__lt__"), ast.GtE: ("__ge__", "__le__")}
        n, rn = names[type(op)]
        if a.ty.kind == "ref":
            f = self.table.resolve(a.ty.cls, n)
            if f is not None:
                return self.call_function(f, a, [b], {}, s, recv_static=a.ty.cls)
        if b.ty.kind == "ref":
            f = self.table.resolve(b.ty.cls, rn)
            if f is not None:
                return self.call_function(f, b, [a], {}, s, recv_static=b.ty.cls)
        return self.implicit(s, "TypeError", True, lambda s2: [])

    def num_eq(self, a, b):
        ka, kb = a.ty.kind, b.ty.kind
        if ka in ("int", "bool") and kb in ("int", "bool"):
            return self.coerce(a, INT)[0].t == self.coerce(b, INT)[0].t
        if "xreal" in (ka, kb):
            return z3.simplify(S.xr_eq(S.to_xr(a), S.to_xr(b)))
        return self.coerce(a, REAL)[0].t == self.coerce(b, REAL)[0].t

    def identical(self, a, b):
        ka, kb = a.ty.kind, b.ty.kind
        if ka == "none" and kb == "none":
            return z3.BoolVal(True)
        if ka == "none":
            a, b, ka, kb = b, a, kb, ka
        if kb == "none":
            if ka == "optseq":
                return z3.Not(a.items[0])
            if ka == "ref":
                return a.t == 0 if a.ty.nullable else z3.BoolVal(False)
            if ka == "obj":
                return PyObj.is_O_none(a.t)
            return z3.BoolVal(False)
        if ka == "ref" and kb == "ref":
            return a.t == b.t
        if ka in ("enum", "type") and kb == ka:
            return a.t == b.t
        if ka == "obj" or kb == "obj":
            return self.to_obj(a) == self.to_obj(b)
        if ka == "bool" and kb == "bool":
            return a.t == b.t
        raise Unsupported("'is' on %r, %r" % (a.ty, b.ty))

    def equals(self, a, b, s):
        """Python == ; returns list of (state, SV bool | Raise)."""
        ka, kb = a.ty.kind, b.ty.kind
        if ka in NUMERIC and kb in NUMERIC:
            return [(s, mk_bool(self.num_eq(a, b)))]
        if ka == "str" and kb == "str":
            return [(s, mk_bool(a.t == b.t))]
        if ka == "none" or kb == "none":
            # x == None : identity for everything we model (no __eq__ override accepts None
            # as equal) -- for refs with an __eq__ in the table, call it
            other = b if ka == "none" else a
            if other.ty.kind == "ref":
                f = self.table.resolve(other.ty.cls, "__eq__")
                if f is not None and not self.spec:
                    if other.ty.nullable:
                        s1 = s.fork().assume(other.t == 0)
                        s2 = s.fork().assume(other.t != 0)
                        nn = SV(REF(other.ty.cls), other.t)
                        return [(s1, mk_bool(True))] + self.call_function(f, nn, [mk_none()], {}, s2,
                                                                            recv_static=other.ty.cls)
                    return self.call_function(f, other, [mk_none()], {}, s, recv_static=other.ty.cls)
            return [(s, mk_bool(self.identical(a, b)))]
        if ka == "ref" and kb == "ref":
            f = self.table.resolve(a.ty.cls, "__eq__")
            if f is None or self.spec:
                return [(s, mk_bool(a.t == b.t))]
            return self.call_function(f, a, [b], {}, s, recv_static=a.ty.cls)
        if ka == "set" and kb == "set" and self.spec and a.t.sort() == b.t.sort():
            return [(s, mk_bool(a.t == b.t))]
        if ka == "arr" and kb == "arr" and self.spec and a.t.sort() == b.t.sort():
            # ghost arrays in specifications: extensional equality
            return [(s, mk_bool(a.t == b.t))]
        if ka == "tup" and kb == "tup" and self.spec and a.ty == b.ty:
            # in specifications tuple equality is structural identity of the components
            return [(s, mk_bool(self.pack(a).t == self.pack(b).t))]
        if ka == "tup" and kb == "tup":
            ia, ib = self.unpack(a), self.unpack(b)
            if len(ia) != len(ib):
                return [(s, mk_bool(False))]
            conj = []
            for x, y in zip(ia, ib):
                r = self.equals(x, y, s)
                if len(r) != 1 or isinstance(r[0][1], Raise):
                    raise Unsupported("tuple equality with effects")
                conj.append(r[0][1].t)
            return [(s, mk_bool(z3.And(*conj)))]
        if ka == "obj" or kb == "obj":
            if ka in NUMERIC or kb in NUMERIC:
                o = a if ka == "obj" else b
                n = b if ka == "obj" else a
                return [(s, mk_bool(z3.And(self.is_numeric_obj(o), S.xr_eq(S.to_xr(o), S.to_xr(n)))))]
            if ka == "str" or kb == "str":
                o = a if ka == "obj" else b
                n = b if ka == "obj" else a
                return [(s, mk_bool(z3.And(PyObj.is_O_str(o.t), PyObj.sval(o.t) == n.t)))]
            if ka == "obj" and kb == "obj":
                both_num = z3.And(self.is_numeric_obj(a), self.is_numeric_obj(b))
                return [(s, mk_bool(z3.If(both_num, S.xr_eq(S.to_xr(a), S.to_xr(b)),
                                          z3.And(a.t == b.t, z3.Not(z3.And(PyObj.is_O_float(a.t), XR.is_nan(PyObj.fval(a.t))))))))]
            return [(s, mk_bool(self.to_obj(a) == self.to_obj(b)))]
        if ka == "seq" and kb == "seq":
            return [(s, mk_bool(a.t == b.t))]
        if ka in ("enum", "type") and kb == ka:
            return [(s, mk_bool(a.t == b.t))]
        if ka == "map" and kb == "map":
            return [(s, mk_bool(a.t == b.t))]
        if ka != kb:
            return [(s, mk_bool(False))]
        raise Unsupported("== on %r, %r" % (a.ty, b.ty))

    def contains(self, cont, item, s):
        k = cont.ty.kind
        if k == "map":
            it, c = self.coerce(item, cont.ty.key)
            r = self.map_has(cont, it)
            if c is not None:
                r = z3.And(c, r)
            return [(s, mk_bool(r))]
        if k == "seq":
            it, c = self.coerce(item, cont.ty.elem)
            self.pack(it)
            from . import calls as _calls
            r = _calls.seq_member(self, cont, it)
            if c is not None:
                r = z3.And(c, r)
            return [(s, mk_bool(r))]
        if k == "str" and item.ty.kind == "str":
            return [(s, mk_bool(z3.Contains(cont.t, item.t)))]
        if k == "emptylist":
            return [(s, mk_bool(False))]
        if k == "set":
            it, c = self.coerce(item, cont.ty.elem)
            r = z3.Select(cont.t, S.enc(it))
            if c is not None:
                r = z3.And(c, r)
            return [(s, mk_bool(r))]
        if k == "enumset":
            return [(s, mk_bool(z3.Or(*[item.t == v for v in cont.items])))]
        if k == "obj" and not self.spec:
            r = self.refine_obj(cont, s)
            if r.ty.kind != "obj":
                if item.ty.kind == "obj":
                    item = self.refine_obj(item, s)
                return self.contains(r, item, s)
        raise Unsupported("'in' on %r" % (cont.ty,))

    # -- attribute / subscript
    def ev_Attribute(self, node, st):
        # module attributes
        if isinstance(node.value, ast.Name) and node.value.id not in st.env:
            m = node.value.id
            v = self.module_attr(m, node.attr)
            if v is not None:
                self.assume_static(v, st)
                return [(st, v)]
        outs = []
        for s, o in self.ev(node.value, st):
            if isinstance(o, Raise):
                outs.append((s, o))
                continue
            outs += self.getattr(o, node.attr, s)
        return outs

    def module_attr(self, m, attr):
        if m == "math":
            if attr == "nan":
                return SV(XREAL, XR.nan)
            if attr == "inf":
                return SV(XREAL, XR.pinf)
            if attr == "pi":
                return SV(REAL, self.reg.ufun("const_pi", z3.RealSort())())
            if attr == "e":
                return SV(REAL, self.reg.ufun("const_e", z3.RealSort())())
        # Class.CONST  (class constants incl. enum members)
        if m in self.table.classes:
            return self.class_attr(m, attr)
        return None

    def class_attr(self, cls, attr):
        enum = self.enum_member(cls, attr)
        if enum is not None:
            return enum
        node, owner = self.table.class_const(cls, attr)
        if node is None:
            return None
        if isinstance(node, ast.Constant):
            return self.ev_Constant(node, None)[0][1]
        if isinstance(node, ast.UnaryOp) and isinstance(node.operand, ast.Constant):
            v = self.ev_Constant(node.operand, None)[0][1]
            return self.neg(v, None)[0][1]
        if isinstance(node, ast.Call) and isinstance(node.func, ast.Name) and node.func.id == "EventType":
            # a static EventType instance: an abstract, globally unique reference
            ref = self.reg.ufun("static_%s_%s" % (owner, attr), z3.IntSort())()
            return SV(REF("EventType"), ref, const=("static", owner, attr))
        return None

    def assume_static(self, v, st):
        """Facts about a static EventType instance (class-level constant created at import time):
        an allocated EventType object without payload metadata, distinct from the other statics."""
        if st is None or self.spec or not (isinstance(v.const, tuple) and v.const and v.const[0] == "static"):
            return
        st.assume(v.t > 0)
        st.assume(v.t < self.A0)
        st.assume(S.typeof(v.t) == self.class_id("EventType"))
        if self.field_decl("EventType", "_metadata") is not None:
            md = z3.Select(self.heap_arr(st, "EventType._metadata", OBJ), v.t)
            st.assume(PyObj.is_O_none(md))
        seen = self.reg.static_refs
        key = v.const[1:]
        for k2, t2 in seen.items():
            if k2 != key:
                st.assume(v.t != t2)
        seen[key] = v.t

    def enum_member(self, cls, attr):
        ci = self.table.classes.get(cls)
        if ci is None:
            return None
        if not any(b in ("Enum", "IntEnum") for b in self.table.mro(cls)):
            return None
        names = [n for n, v in ci.consts.items()]
        if attr not in names:
            return None
        node = ci.consts[attr]
        if isinstance(node, ast.Constant) and isinstance(node.value, int):
            val = node.value
        else:
            val = names.index(attr) + 1      # auto()
        return SV(Ty("enum", cls=cls), z3.IntVal(val), const=val)

    def getattr(self, o, attr, s):
        k = o.ty.kind
        if k == "ref":
            cls = o.ty.cls
            if o.ty.nullable and not self.spec:
                return self.implicit(s, "AttributeError", o.t == 0,
                                     lambda s2: self.getattr(SV(REF(cls), o.t), attr, s2))
            if self.field_decl(cls, attr) is not None:
                return [(s, self.load_field(s, o.t, cls, attr))]
            f = self.table.resolve(cls, attr)
            if f is not None and f.is_property:
                is_self = "self" in s.env and s.env["self"].t is not None and o.t.eq(s.env["self"].t) and self.self_class
                if is_self:
                    f = self.table.resolve(self.self_class, attr) or f
                elif not self.spec:
                    from . import calls as _calls
                    return _calls.dispatch(self, cls, attr, o, s,
                                           lambda fn, rv, s2: self.call_function(fn, rv, [], {}, s2, recv_static=rv.ty.cls))
                return self.call_function(f, o, [], {}, s, recv_static=cls)
            hook = self.reg.specfuns.get("classattr_" + attr)
            if hook is not None and self.field_decl(cls, attr) is None:
                hv = hook(self, o, s)
                if hv is not None:
                    return [(s, hv)]
            ca = self.class_attr(cls, attr)
            if ca is not None:
                self.assume_static(ca, s)
                return [(s, ca)]
            # private name mangling: self.__x inside class C is _C__x
            if attr.startswith("__") and not attr.endswith("__") and self.cur_class:
                mangled = "_%s%s" % (self.cur_class, attr)
                if self.field_decl(cls, mangled) is not None:
                    return [(s, self.load_field(s, o.t, cls, mangled))]
            raise Unsupported("attribute %s.%s (declare the field in the sidecar)" % (cls, attr))
        if k == "exc":
            raise Unsupported("attribute of exception")
        if k == "obj":
            if self.spec:
                raise Unsupported("attribute %s of a dynamic value in a spec (use asref)" % attr)
            r = self.refine_to_ref(o, attr, s)
            if r is not None:
                return self.getattr(r, attr, s)
            # not provably an instance of a class that has the attribute
            return self.implicit(s, "AttributeError", True, lambda s2: [])
        if k == "type" and self.reg.specfuns.get("typeattr_" + attr):
            hv = self.reg.specfuns["typeattr_" + attr](self, o, s)
            if hv is not None:
                return [(s, hv)]
        if k == "type" and attr == "__name__":
            # the name of a class object: an uninterpreted function of the class id (only ever used in messages)
            return [(s, SV(STR, self.reg.ufun("type_name", z3.IntSort(), z3.StringSort())(o.t)))]
        raise Unsupported("attribute %s on %r" % (attr, o.ty))

    def refine_to_ref(self, o, attr, s):
        """A dynamic value used as ``o.attr``: find the most general class of the table that has
        ``attr`` (field, property or method) and of which the path condition proves o to be an
        instance; return o as a typed reference."""
        cands = []
        for cname in self.table.classes:
            ci = self.table.classes[cname]
            own = attr in ci.methods or attr in self.reg.fields.get(cname, {})
            if own:
                cands.append(cname)
        # most specific first: the first class the path condition proves wins
        cands.sort(key=lambda c: -len(self.table.mro(c)))
        for c in cands:
            goal = z3.And(PyObj.is_O_ref(o.t), self.isinstance_ref(PyObj.rval(o.t), c))
            if self.prover.quick(s.pc, goal) == "proved":
                return SV(REF(c), PyObj.rval(o.t))
        return None

    def ev_Subscript(self, node, st):
        outs = []
        if isinstance(node.slice, ast.Slice):
            parts = [node.value] + [p for p in (node.slice.lower, node.slice.upper) if p is not None]
            for s, vals in self.ev_seq(parts, st):
                if isinstance(vals, Raise):
                    outs.append((s, vals))
                    continue
                base = vals[0]
                i = 1
                lo = hi = None
                if node.slice.lower is not None:
                    lo = vals[i]
                    i += 1
                if node.slice.upper is not None:
                    hi = vals[i]
                outs.append((s, self.slice(base, lo, hi)))
            return outs
        for s, vals in self.ev_seq([node.value, node.slice], st):
            if isinstance(vals, Raise):
                outs.append((s, vals))
                continue
            outs += self.getitem(vals[0], vals[1], s)
        return outs

    def slice(self, base, lo, hi):
        if base.ty.kind not in ("seq", "str"):
            raise Unsupported("slice of %r" % (base.ty,))
        n = z3.Length(base.t)

        def norm(v, default):
            if v is None:
                return default
            t = self.coerce(v, INT)[0].t
            t = z3.If(t < 0, z3.If(t + n < 0, 0, t + n), z3.If(t > n, n, t))
            return t
        l = norm(lo, z3.IntVal(0))
        h = norm(hi, n)
        return SV(base.ty, z3.SubSeq(base.t, l, z3.If(h - l < 0, 0, h - l)), const="fresh")

    def getitem(self, base, idx, s):
        k = base.ty.kind
        if k == "tup":
            if isinstance(idx.const, int):
                items = self.unpack(base)
                return [(s, items[idx.const])]
            raise Unsupported("tuple index not constant")
        if k == "seq":
            i = self.coerce(idx, INT)[0].t
            n = z3.Length(base.t)
            j = z3.If(i < 0, i + n, i)
            et = base.ty.elem
            return self.implicit(s, "IndexError", z3.Or(j < 0, j >= n),
                                 lambda s2: [(s2, self.seq_elem(s2, base, j))])
        if k == "str":
            i = self.coerce(idx, INT)[0].t
            n = z3.Length(base.t)
            j = z3.If(i < 0, i + n, i)
            return self.implicit(s, "IndexError", z3.Or(j < 0, j >= n),
                                 lambda s2: [(s2, SV(STR, z3.SubString(base.t, j, 1)))])
        if k == "arr":
            i = self.coerce(idx, INT)[0].t
            return [(s, SV(base.ty.elem, z3.Select(base.t, i)))]
        if k == "map":
            key, c = self.coerce(idx, base.ty.key)
            has = self.map_has(base, key)
            if c is not None:
                has = z3.And(c, has)
            return self.implicit(s, "KeyError", z3.Not(has),
                                 lambda s2: [(s2, self.map_elem(s2, base, key))])
        if k == "obj":
            # a dynamic value the path condition proves to be a tuple / list: items are an uninterpreted
            # function of (object, index); out-of-range index raises IndexError
            o = base.t
            kind = self.reg.ufun("other_kind", z3.IntSort(), z3.IntSort())
            ln = self.reg.ufun("other_len", z3.IntSort(), z3.IntSort())
            item = self.reg.ufun("other_item", z3.IntSort(), z3.IntSort(), PyObj)
            is_tl = z3.And(PyObj.is_O_other(o), z3.Or(kind(PyObj.oid(o)) == 2, kind(PyObj.oid(o)) == 3))
            if self.spec or self.prover.quick(s.pc, is_tl) == "proved":
                i = self.coerce(idx, INT)[0].t
                n = ln(PyObj.oid(o))
                j = z3.If(i < 0, i + n, i)
                if self.spec:
                    return [(s, SV(OBJ, item(PyObj.oid(o), j)))]
                s.assume(n >= 0)
                return self.implicit(s, "IndexError", z3.Or(j < 0, j >= n),
                                     lambda s2: [(s2, SV(OBJ, item(PyObj.oid(o), j)))])
        raise Unsupported("subscript of %r" % (base.ty,))

    def seq_elem(self, st, base, j):
        et = base.ty.elem
        t = z3.simplify(S.dec(et, base.t[j]))
        sv = SV(et, t)
        self.assume_wf_value(st, sv)
        return sv

    def map_elem(self, st, base, key):
        sv = SV(base.ty.elem, z3.simplify(z3.Select(self.map_vals(base), S.enc(key))))
        self.assume_wf_value(st, sv)
        return sv

    def assume_wf_value(self, st, sv):
        if self.spec:
            return
        if sv.ty.kind == "ref":
            st.assume(sv.t < self.A0 + st.nalloc)
            st.assume(sv.t > 0 if not sv.ty.nullable else sv.t >= 0)
            if sv.ty.cls in self.table.classes:
                inst = self.isinstance_ref(sv.t, sv.ty.cls)
                st.assume(z3.Or(sv.t == 0, inst) if sv.ty.nullable else inst)
        elif sv.ty.kind == "tup":
            for it in self.unpack(sv):
                self.assume_wf_value(st, it)

    def ev_Lambda(self, node, st):
        raise Unsupported("lambda")

    def ev_ListComp(self, node, st):
        # [x + y for x, y in zip(A, B)] / (x - y): the comprehension spelling of list(map(lambda x, y: x + y, A, B))
        from pyvc.calls import elementwise
        g = node.generators[0] if len(node.generators) == 1 else None
        e = node.elt
        if (g is not None and not g.ifs and not g.is_async and isinstance(g.target, ast.Tuple) and len(g.target.elts) == 2
                and all(isinstance(t, ast.Name) for t in g.target.elts)
                and isinstance(g.iter, ast.Call) and isinstance(g.iter.func, ast.Name) and g.iter.func.id == "zip"
                and len(g.iter.args) == 2 and not g.iter.keywords and "zip" not in st.env
                and isinstance(e, ast.BinOp) and isinstance(e.op, (ast.Add, ast.Sub))
                and isinstance(e.left, ast.Name) and isinstance(e.right, ast.Name)
                and [e.left.id, e.right.id] == [t.id for t in g.target.elts]):
            return elementwise(self, g.iter.args[0], g.iter.args[1], 1 if isinstance(e.op, ast.Add) else -1, st)
        raise Unsupported("list comprehension other than [x +/- y for x, y in zip(A, B)]")

    def ev_DictComp(self, node, st):
        hook = self.reg.specfuns.get("dictcomp_hook")
        if hook is None:
            raise Unsupported("dict comprehension")
        return hook(self, node, st)

    def ev_Set(self, node, st):
        # set display {a, b}: membership only (iteration over a set is a process-varying effect and unsupported)
        outs = []
        for s, vals in self.ev_seq(node.elts, st):
            if isinstance(vals, Raise):
                outs.append((s, vals))
                continue
            et = vals[0].ty
            arr = z3.K(S.elem_sort(et), z3.BoolVal(False))
            for v in vals:
                arr = z3.Store(arr, S.enc(v), z3.BoolVal(True))
            outs.append((s, SV(Ty("set", elem=et), arr, const="fresh")))
        return outs

    def ev_Dict(self, node, st):
        if not node.keys:
            return [(st, SV(Ty("emptydict"), None, const="fresh"))]
        raise Unsupported("dict display")

    # ------------------------------------------------------------------ calls
    def ev_Call(self, node, st):
        from . import calls
        if not self.spec and self.func is not None and isinstance(node.func, ast.Attribute):
            inj = self.reg.ghost_calls.get((getattr(self.func, "qual", None), node.func.attr))
            if inj:
                # ghost statements attached (in the sidecar) to this call site: assertions are proof
                # obligations, assignments update ghost fields; they never influence executable paths
                k = self.site("ghost:" + node.func.attr)
                for i, a in enumerate(inj.get("asserts", [])):
                    g = self.spec_eval(a, st)
                    self.oblige("ghost-assert.%s#%d.%d" % (node.func.attr, k, i), "ghost", st, g)
                    st.assume(g)
                for path, expr in inj.get("assign", []):
                    from .calls import resolve_path
                    for o, cls, fn in resolve_path(self, path, st.env, st):
                        self.store_field(st, o.t, cls, fn, self.spec_value(expr, st))
        return calls.ev_call(self, node, st)

    def call_function(self, f, recv, args, kwargs, st, recv_static=None, via_super=False):
        from . import calls
        return calls.call_function(self, f, recv, args, kwargs, st, recv_static, via_super)

    # ------------------------------------------------------------------ spec evaluation
    def spec_eval(self, text, st, old=None, result=None, env=None):
        """Evaluate a spec clause (python expression text) to a z3 Bool in state ``st``."""
        node = text if isinstance(text, ast.AST) else ast.parse(text.strip(), mode="eval").body
        saved = (self.spec, self.old_state, self.result)
        self.spec, self.old_state, self.result = True, old if old is not None else self.old_state, \
            result if result is not None else self.result
        try:
            s = st.fork()
            if env:
                s.env.update(env)
            v = self.ev1(node, s)
            return self.truth(v) if v.ty.kind != "bool" else v.t
        finally:
            self.spec, self.old_state, self.result = saved

    def spec_value(self, text, st, old=None, result=None, env=None):
        node = text if isinstance(text, ast.AST) else ast.parse(text.strip(), mode="eval").body
        saved = (self.spec, self.old_state, self.result)
        self.spec, self.old_state, self.result = True, old if old is not None else self.old_state, \
            result if result is not None else self.result
        try:
            s = st.fork()
            if env:
                s.env.update(env)
            return self.ev1(node, s)
        finally:
            self.spec, self.old_state, self.result = saved
