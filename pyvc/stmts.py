"""Statement execution for pyvc (path-wise)."""
import ast

import z3

from . import sorts as S
from .sorts import SV, Ty, INT, BOOL, REAL, XREAL, STR, NONE, OBJ, REF, SEQ, TUP, MAP, XR, PyObj
from .engine import Unsupported, Raise, mk_int, mk_bool, mk_none, exc_is
from . import calls

NEXT = ("next",)


def exec_block(eng, stmts, st):
    outs = [(st, NEXT)]
    for stmt in stmts:
        nxt = []
        for s, ctl in outs:
            if ctl[0] != "next":
                nxt.append((s, ctl))
                continue
            nxt += exec_stmt(eng, stmt, s)
        outs = nxt
        if len(outs) > eng.max_paths:
            raise Unsupported("path explosion (> %d paths)" % eng.max_paths)
    return outs


def exec_stmt(eng, node, st):
    fn = globals().get("x_" + type(node).__name__)
    if fn is None:
        raise Unsupported("statement %s" % type(node).__name__)
    return fn(eng, node, st)


def lift(outs, fn):
    """outs: (state, SV|Raise) -> statement outcomes via fn(state, SV)"""
    res = []
    for s, v in outs:
        if isinstance(v, Raise):
            res.append((s, ("raise", v)))
        else:
            res += fn(s, v)
    return res


def x_Pass(eng, node, st):
    return [(st, NEXT)]


def x_Expr(eng, node, st):
    if isinstance(node.value, ast.Constant):
        return [(st, NEXT)]
    return lift(eng.ev(node.value, st), lambda s, v: [(s, NEXT)])


def x_Return(eng, node, st):
    if node.value is None:
        return [(st, ("return", mk_none()))]
    return lift(eng.ev(node.value, st), lambda s, v: [(s, ("return", v))])


def x_Raise(eng, node, st):
    if node.exc is None:
        cur = st.env.get("$exc")
        if cur is None:
            raise Unsupported("bare raise outside handler")
        return [(st, ("raise", cur))]

    def go(s, v):
        if v.ty.kind != "exc":
            raise Unsupported("raise of non-exception %r" % (v.ty,))
        s.notes.append("raise %s" % v.const)
        return [(s, ("raise", Raise(v.const, origin="explicit", site="raise %s#%d" % (v.const, eng.site("raise:" + v.const)))))]
    return lift(eng.ev(node.exc, st), go)


def assign_target(eng, target, val, st):
    """-> list of (state, ctl)"""
    if isinstance(target, ast.Name):
        if val.ty.kind == "seq" and val.const is None:
            pass
        st.env[target.id] = val
        return [(st, NEXT)]
    if isinstance(target, ast.Attribute):
        outs = []
        for s, o in eng.ev(target.value, st):
            if isinstance(o, Raise):
                outs.append((s, ("raise", o)))
                continue
            outs += setattr_(eng, o, target.attr, val, s)
        return outs
    if isinstance(target, ast.Subscript):
        outs = []
        for s, lv in calls.lvalue(eng, target, st):
            if isinstance(lv, Raise):
                outs.append((s, ("raise", lv)))
                continue
            base = lv.parent.get(eng, s)
            if base.ty.kind == "map":
                v = val
                if v.ty.kind == "emptylist" and base.ty.elem.kind == "seq":
                    v = SV(base.ty.elem, z3.Empty(S.sort_of(base.ty.elem)))
                lv.set(eng, s, v)
                outs.append((s, NEXT))
            else:
                raise Unsupported("subscript store on %r" % (base.ty,))
        return outs
    if isinstance(target, (ast.Tuple, ast.List)):
        items = eng.unpack(val) if val.ty.kind == "tup" else None
        if items is None or len(items) != len(target.elts):
            raise Unsupported("tuple unpacking")
        outs = [(st, NEXT)]
        for t, it in zip(target.elts, items):
            nxt = []
            for s, ctl in outs:
                if ctl[0] != "next":
                    nxt.append((s, ctl))
                else:
                    nxt += assign_target(eng, t, it, s)
            outs = nxt
        return outs
    raise Unsupported("assignment target %s" % type(target).__name__)


def setattr_(eng, o, attr, val, s):
    if o.ty.kind == "obj":
        r = eng.refine_to_ref(o, attr, s)
        if r is not None:
            o = r
    if o.ty.kind != "ref":
        raise Unsupported("attribute store on %r" % (o.ty,))
    cls = o.ty.cls
    name = attr
    if eng.field_decl(cls, name) is None and name.startswith("__") and not name.endswith("__") and eng.cur_class:
        name = "_%s%s" % (eng.cur_class, name)
    if eng.field_decl(cls, name) is not None:
        v = val
        d = eng.field_decl(cls, name)[1]
        if v.ty.kind == "emptylist" and d.kind == "seq":
            v = SV(d, z3.Empty(S.sort_of(d)))
        if v.ty.kind == "emptydict" and d.kind == "map":
            v = eng.map_mk(d, z3.Empty(z3.SeqSort(S.elem_sort(d.key))),
                           S.fresh("emptyvals", z3.ArraySort(S.elem_sort(d.key), S.sort_of(d.elem))))
        eng.store_field(s, o.t, cls, name, v)
        return [(s, NEXT)]
    dyn = eng.self_class if ("self" in s.env and o.t.eq(s.env["self"].t) and eng.self_class) else cls
    getter = eng.table.resolve(dyn, attr)
    if getter is not None and getter.is_property:
        setter = eng.table.resolve_setter(dyn, attr)
        if setter is None:
            s.notes.append("assignment to property %s.%s that has no setter" % (dyn, attr))
            return [(s, ("raise", Raise("AttributeError", origin="implicit",
                                       site="AttributeError#%d" % eng.site("AttributeError"))))]
        return lift(eng.call_function(setter, o, [val], {}, s, recv_static=dyn), lambda s2, v: [(s2, NEXT)])
    raise Unsupported("store to undeclared attribute %s.%s" % (cls, attr))


def x_Assign(eng, node, st):
    def go(s, v):
        outs = [(s, NEXT)]
        for t in node.targets:
            nxt = []
            for s2, ctl in outs:
                if ctl[0] != "next":
                    nxt.append((s2, ctl))
                else:
                    nxt += assign_target(eng, t, v, s2)
            outs = nxt
        return outs
    # x.f = x.f + v: f is read only to update itself
    t0 = node.targets[0] if len(node.targets) == 1 else None
    if isinstance(t0, ast.Attribute) and isinstance(node.value, ast.BinOp) and isinstance(node.value.left, ast.Attribute) \
            and ast.dump(node.value.left.value) == ast.dump(t0.value) and node.value.left.attr == t0.attr \
            and isinstance(node.value.right, ast.Constant):
        eng._self_update = True
        try:
            vals = eng.ev(node.value, st)
        finally:
            eng._self_update = False
        return lift(vals, go)
    # record heap aliasing of container values bound to locals
    if len(node.targets) == 1 and isinstance(node.targets[0], ast.Name) \
            and isinstance(node.value, (ast.Attribute, ast.Subscript)):
        def go2(s, v):
            if v.ty.kind in ("seq", "map") and v.const is None:
                key = alias_key(eng, node.value, s)
                if key is not None and key in s.heap:
                    v = SV(v.ty, v.t, const=("heapalias", key, s.heap[key], node.value))
            return go(s, v)
        return lift(eng.ev(node.value, st), go2)
    return lift(eng.ev(node.value, st), go)


def alias_key(eng, node, s):
    n = node
    while isinstance(n, ast.Subscript):
        n = n.value
    if isinstance(n, ast.Attribute):
        try:
            outs = eng.ev(n.value, s.fork())
        except Unsupported:
            return None
        if len(outs) == 1 and not isinstance(outs[0][1], Raise) and outs[0][1].ty.kind == "ref":
            return eng.field_key(outs[0][1].ty.cls, n.attr)
    return None


def x_AnnAssign(eng, node, st):
    eng.dropped["annotation"] += 1
    if node.value is None:
        return [(st, NEXT)]
    return lift(eng.ev(node.value, st), lambda s, v: assign_target(eng, node.target, v, s))


def x_AugAssign(eng, node, st):
    # evaluate target (load), then value, then op, then store -- target object evaluated once
    t = node.target
    if isinstance(t, ast.Name):
        def go(s, v):
            cur = s.env[t.id]
            return lift(eng.binop(node.op, cur, v, s), lambda s2, r: assign_target(eng, t, r, s2))
        return lift(eng.ev(node.value, st), go)
    if isinstance(t, ast.Attribute):
        outs = []
        for s, o in eng.ev(t.value, st):
            if isinstance(o, Raise):
                outs.append((s, ("raise", o)))
                continue
            eng._self_update = True      # x.f += v reads f only to update f
            try:
                loaded = eng.getattr(o, t.attr, s)
            finally:
                eng._self_update = False
            for s1, cur in loaded:
                if isinstance(cur, Raise):
                    outs.append((s1, ("raise", cur)))
                    continue
                for s2, v in eng.ev(node.value, s1):
                    if isinstance(v, Raise):
                        outs.append((s2, ("raise", v)))
                        continue
                    outs += lift(eng.binop(node.op, cur, v, s2), lambda s3, r: setattr_(eng, o, t.attr, r, s3))
        return outs
    raise Unsupported("augmented assignment target")


def x_If(eng, node, st):
    outs = []
    for s, c in eng.ev(node.test, st):
        if isinstance(c, Raise):
            outs.append((s, ("raise", c)))
            continue
        cond = z3.simplify(eng.truth(c))
        if z3.is_true(cond):
            outs += exec_block(eng, node.body, s)
            continue
        if z3.is_false(cond):
            outs += exec_block(eng, node.orelse, s)
            continue
        s1 = s.fork().assume(cond)
        s2 = s.fork().assume(z3.Not(cond))
        if eng.feasible(s1):
            outs += exec_block(eng, node.body, s1)
        if eng.feasible(s2):
            outs += exec_block(eng, node.orelse, s2)
    return outs


def x_Assert(eng, node, st):
    # in lemma programs: a proof obligation; in real code: raises AssertionError
    if eng.lemma_mode:
        g = eng.spec_eval(node.test, st)
        label = None
        if node.msg is not None and isinstance(node.msg, ast.Constant):
            label = str(node.msg.value)
        k = eng.site("assert")
        eng.oblige("assert.%s" % (label or ("#%d" % k)), "lemma", st, g)
        st.assume(g)
        return [(st, NEXT)]
    outs = []
    for s, c in eng.ev(node.test, st):
        if isinstance(c, Raise):
            outs.append((s, ("raise", c)))
            continue
        cond = eng.truth(c)
        outs += [(s2, NEXT) if not isinstance(v, Raise) else (s2, ("raise", v))
                 for s2, v in eng.implicit(s, "AssertionError", z3.Not(cond), lambda s3: [(s3, mk_none())])]
    return outs


def x_Delete(eng, node, st):
    outs = [(st, NEXT)]
    for t in node.targets:
        if not isinstance(t, ast.Subscript):
            raise Unsupported("del of non-subscript")
        nxt = []
        for s, ctl in outs:
            if ctl[0] != "next":
                nxt.append((s, ctl))
                continue
            for s2, lv in calls.lvalue(eng, t, s):
                if isinstance(lv, Raise):
                    nxt.append((s2, ("raise", lv)))
                    continue
                base = lv.parent.get(eng, s2)
                if base.ty.kind != "map":
                    raise Unsupported("del on %r" % (base.ty,))
                k = eng.coerce(lv.key, base.ty.key)[0]

                def cont(s3, lv=lv, base=base, k=k):
                    lv.parent.set(eng, s3, calls.map_delete(eng, base, k))
                    return [(s3, mk_none())]
                for s3, v in eng.implicit(s2, "KeyError", z3.Not(eng.map_has(base, k)), cont):
                    nxt.append((s3, ("raise", v) if isinstance(v, Raise) else NEXT))
        outs = nxt
    return outs


def x_Break(eng, node, st):
    return [(st, ("break",))]


def x_Continue(eng, node, st):
    return [(st, ("continue",))]


def x_Global(eng, node, st):
    raise Unsupported("global")


def x_Import(eng, node, st):
    return [(st, NEXT)]


x_ImportFrom = x_Import


# ---------------------------------------------------------------------------- try
def handler_matches(h, exc):
    if h.type is None:
        return True
    names = []
    if isinstance(h.type, ast.Name):
        names = [h.type.id]
    elif isinstance(h.type, ast.Tuple):
        names = [e.id for e in h.type.elts if isinstance(e, ast.Name)]
    elif isinstance(h.type, ast.Attribute):
        names = [h.type.attr]
    return any(exc_is(exc.cls, n) for n in names)


def x_Try(eng, node, st):
    outs = []
    for s, ctl in exec_block(eng, node.body, st):
        if ctl[0] == "raise":
            exc = ctl[1]
            handled = False
            for h in node.handlers:
                if handler_matches(h, exc):
                    handled = True
                    s2 = s
                    saved = s2.env.get("$exc")
                    s2.env["$exc"] = exc
                    if h.name:
                        s2.env[h.name] = SV(S.EXC, S.fresh("exc", z3.IntSort()), const=exc.cls)
                    for s3, c3 in exec_block(eng, h.body, s2):
                        if saved is None:
                            s3.env.pop("$exc", None)
                        else:
                            s3.env["$exc"] = saved
                        outs.append((s3, c3))
                    break
            if not handled:
                outs.append((s, ctl))
        elif ctl[0] == "next" and node.orelse:
            outs += exec_block(eng, node.orelse, s)
        else:
            outs.append((s, ctl))
    if node.finalbody:
        res = []
        for s, ctl in outs:
            for s2, c2 in exec_block(eng, node.finalbody, s):
                res.append((s2, ctl if c2[0] == "next" else c2))
        outs = res
    return outs


# ---------------------------------------------------------------------------- loops
def assigned_names(body):
    names = set()
    for n in body:
        for x in ast.walk(n):
            if isinstance(x, ast.Name) and isinstance(x.ctx, ast.Store):
                names.add(x.id)
            if isinstance(x, ast.ExceptHandler) and x.name:
                names.add(x.name)
    return names


def loop_spec(eng, node):
    q = eng.func.qual if eng.func is not None else eng.unit
    k = eng.loop_ord.setdefault(q, {})
    if id(node) not in k:
        k[id(node)] = len(k)
    return q, k[id(node)], eng.reg.loops.get((q, k[id(node)]))


def havoc_local(eng, st, name):
    v = st.env.get(name)
    if v is None:
        return
    if v.t is None:
        raise Unsupported("havoc of untyped local %s" % name)
    st.env[name] = SV(v.ty, S.fresh("lv_" + name, v.t.sort()))
    if v.ty.kind == "ref":
        st.assume(st.env[name].t >= 0)
        st.assume(st.env[name].t < eng.A0 + st.nalloc)


def run_loop(eng, node, st, head, body_prefix=None, extra_havoc=(), qual_ord=None):
    """Generic invariant-based loop.  ``head(s)`` -> list of (state, cond-bool | Raise):
    evaluates the loop guard.  body_prefix(s) runs at the start of each iteration (binding
    the loop variable of a for)."""
    q, k, spec = loop_spec(eng, node)
    if spec is None:
        raise Unsupported("loop #%d of %s has no invariant in the sidecar" % (k, q))
    pre = st
    env_entry = dict(st.env)
    for gname, gexpr in spec.ghost_init:
        st.env[gname] = eng.spec_value(gexpr, st)
    extra_havoc = tuple(extra_havoc) + tuple(g for g, _ in spec.ghost_init)
    # 1. invariant holds on entry
    for i, inv in enumerate(spec.inv):
        g = eng.spec_eval(inv, st, env={"$loop_pre": None} and None)
        eng.oblige("inv-init.%s#%d.%d" % (q, k, i), "loop", st, g)
    # 2. havoc
    h = st.fork()
    names = assigned_names(node.body) | set(extra_havoc)
    for n, ty in spec.locals_types.items():
        if n not in h.env:
            h.env[n] = SV(ty, S.fresh("lv_" + n, S.sort_of(ty)))
    for n in names:
        if n in h.env:
            havoc_local(eng, h, n)
    for n in names:
        if n.startswith("$i") and n in h.env:
            h.env["_i"] = h.env[n]          # _i is the spec-visible name of the loop index
    calls.havoc_paths(eng, spec.modifies, h.env, h)
    # the allocation counter may have grown
    grown = S.fresh("nalloc_loop", z3.IntSort())
    h.assume(grown >= 0)
    eng.A0_bump(h, grown)
    for inv in spec.inv:
        h.assume(eng.spec_eval(inv, h))
    outs = []
    heap_at_head = dict(h.heap)
    # 3. one arbitrary iteration
    for s, c in head(h.fork()):
        if isinstance(c, Raise):
            outs.append((s, ("raise", c)))
            continue
        s_in = s.fork().assume(c)
        s_out = s.fork().assume(z3.Not(c))
        if eng.feasible(s_in):
            body_outs = []

            def ghost_pre(sx):
                for gname, gexpr in spec.ghost_pre:
                    sx.env[gname] = eng.spec_value(gexpr, sx)
            if body_prefix is not None:
                for s1, ctl in body_prefix(s_in):
                    if ctl[0] == "next":
                        ghost_pre(s1)
                        body_outs += exec_block(eng, node.body, s1)
                    else:
                        body_outs.append((s1, ctl))
            else:
                ghost_pre(s_in)
                body_outs = exec_block(eng, node.body, s_in)
            for s2, ctl in body_outs:
                if ctl[0] in ("next", "continue"):
                    s2e = s2
                    if eng.loop_step is not None:
                        eng.loop_step(s2e, node)
                    for i, hint in enumerate(spec.hints):
                        g = eng.spec_eval(hint, s2e)
                        hname = "inv-hint.%s#%d.%d" % (q, k, i)
                        hst = eng.oblige(hname, "loop-hint", s2e, g)
                        if hst == "proved":
                            s2e.assume(g)
                        elif hst == "refuted":
                            # a hint is a step of the proof, not part of the contract: one that does not hold is simply not
                            # used (the invariant obligations below decide); it is recorded as open, never as a violation
                            for ob in eng.obls:
                                if ob.name == hname:
                                    ob.status, ob.model, ob.detail = "unknown", None, None
                                    ob.reason = "proof hint does not hold on this path (not used as a hypothesis)"
                    for i, inv in enumerate(spec.inv):
                        g = eng.spec_eval(inv, s2e)
                        eng.oblige("inv-pres.%s#%d.%d" % (q, k, i), "loop", s2e, g)
                    check_loop_frame(eng, q, k, spec, heap_at_head, s2e)
                elif ctl[0] == "break":
                    check_loop_frame(eng, q, k, spec, heap_at_head, s2)
                    outs.append((s2, NEXT))
                else:
                    outs.append((s2, ctl))
        if eng.feasible(s_out):
            for i, cl in enumerate(spec.post):
                g = eng.spec_eval(cl, s_out)
                eng.oblige("loop-post.%s#%d.%d" % (q, k, i), "loop", s_out, g)
                s_out.assume(g)
            if node.orelse:
                outs += exec_block(eng, node.orelse, s_out)
            else:
                outs.append((s_out, NEXT))
    return outs


def check_loop_frame(eng, q, k, spec, heap0, s):
    """Every heap field not listed in the loop's modifies is unchanged by the body."""
    allowed = set()
    for p in spec.modifies:
        if p == "heap.*":
            return
        if p.startswith("heap."):
            allowed.add(p[5:])
            continue
        for o, cls, fn in calls.resolve_path(eng, p, s.env, s):
            allowed.add((eng.field_key(cls, fn), o))
    for key, arr in s.heap.items():
        base = heap0.get(key)
        if base is None or arr.eq(base):
            continue
        if key in allowed or key in getattr(eng.reg, "auto_keys", ()):
            continue
        objs = [o for (kk, o) in [a for a in allowed if isinstance(a, tuple)] if kk == key]
        r = z3.Int("fr_r")
        cond = z3.ForAll([r], z3.Implies(z3.And(*[r != o.t for o in objs]) if objs else z3.BoolVal(True),
                                         z3.Select(arr, r) == z3.Select(base, r)))
        eng.oblige("loop-frame.%s#%d.%s" % (q, k, key), "frame", s, cond)


def x_While(eng, node, st):
    def head(s):
        return [(s2, (c if isinstance(c, Raise) else eng.truth(c))) for s2, c in eng.ev(node.test, s)]
    return run_loop(eng, node, st, head)


def literal_range(node):
    if isinstance(node, ast.Call) and isinstance(node.func, ast.Name) and node.func.id == "range":
        vals = []
        for a in node.args:
            if isinstance(a, ast.Constant) and isinstance(a.value, int):
                vals.append(a.value)
            else:
                return None
        r = range(*vals)
        if len(r) <= 32:
            return list(r)
    return None


def x_For(eng, node, st):
    lit = literal_range(node.iter)
    if lit is not None:
        # literal trip count: unroll completely
        outs = [(st, NEXT)]
        for i in lit:
            nxt = []
            for s, ctl in outs:
                if ctl[0] != "next":
                    nxt.append((s, ctl))
                    continue
                for s1, c1 in assign_target(eng, node.target, mk_int(i), s):
                    for s2, c2 in exec_block(eng, node.body, s1):
                        if c2[0] == "continue":
                            nxt.append((s2, NEXT))
                        elif c2[0] == "break":
                            nxt.append((s2, ("brk",)))
                        else:
                            nxt.append((s2, c2))
            outs = nxt
        return [(s, NEXT if c[0] == "brk" else c) for s, c in outs]
    # symbolic iteration: over range(n) or over a sequence value
    idx = "$i%d" % id(node)
    if isinstance(node.iter, ast.Call) and isinstance(node.iter.func, ast.Name) and node.iter.func.id == "range":
        outs = []
        for s, vals in eng.ev_seq(node.iter.args, st):
            if isinstance(vals, Raise):
                outs.append((s, ("raise", vals)))
                continue
            if len(vals) == 1:
                lo, hi = mk_int(0), eng.coerce(vals[0], INT)[0]
            elif len(vals) == 2:
                lo, hi = eng.coerce(vals[0], INT)[0], eng.coerce(vals[1], INT)[0]
            else:
                raise Unsupported("range with step")
            s.env[idx] = SV(INT, lo.t)
            s.env["_i"] = s.env[idx]

            def head(h, hi=hi):
                return [(h, h.env[idx].t < hi.t)]

            def prefix(h):
                i = h.env[idx]
                h.env[idx] = SV(INT, i.t + 1)
                h.env["_i"] = i
                return assign_target(eng, node.target, i, h)

            def step(h, n):
                h.env["_i"] = h.env[idx]
            eng.loop_step = step
            try:
                outs += run_loop(eng, node, s, head, prefix, extra_havoc=(idx, "_i"))
            finally:
                eng.loop_step = None
        return outs
    outs = []
    for s, seq in eng.ev(node.iter, st):
        if isinstance(seq, Raise):
            outs.append((s, ("raise", seq)))
            continue
        if seq.ty.kind == "optseq":
            outs += for_live(eng, node, s, idx)
            continue
        if seq.ty.kind == "emptylist":
            outs.append((s, NEXT))
            continue
        if seq.ty.kind == "str":
            outs += for_over_str(eng, node, s, seq, idx)
            continue
        if seq.ty.kind != "seq":
            raise Unsupported("for over %r" % (seq.ty,))
        if seq.const != "fresh" and not eng.lemma_mode:
            # iterating a live container (list held in the heap / dict view) that the body might
            # mutate: python's list iterator re-reads the list at every step
            outs += for_live(eng, node, s, idx)
            continue
        outs += for_over_seq(eng, node, s, seq, idx)
    return outs


def for_over_str(eng, node, s, text, idx):
    """for ch in <str>: one-character substrings in order (strings are immutable)."""
    s.env[idx] = SV(INT, z3.IntVal(0))
    s.env["_i"] = s.env[idx]
    s.env["_seq"] = text

    def head(h):
        return [(h, h.env[idx].t < z3.Length(text.t))]

    def prefix(h):
        i = h.env[idx]
        e = SV(STR, z3.SubString(text.t, i.t, 1))
        h.assume(z3.Length(e.t) == 1)
        h.env[idx] = SV(INT, i.t + 1)
        h.env["_i"] = i
        return assign_target(eng, node.target, e, h)

    def step(h, n):
        h.env["_i"] = h.env[idx]
    eng.loop_step = step
    try:
        return run_loop(eng, node, s, head, prefix, extra_havoc=(idx, "_i"))
    finally:
        eng.loop_step = None


def for_live(eng, node, s, idx):
    s.env[idx] = SV(INT, z3.IntVal(0))
    s.env["_i"] = s.env[idx]
    if "_seq" not in s.env:
        # initial value of the iterated container (spec-visible as _seq)
        for h2, seqv in eng.ev(node.iter, s.fork()):
            if not isinstance(seqv, Raise) and seqv.ty.kind in ("seq", "optseq"):
                s.env["_seq"] = SV(SEQ(seqv.ty.elem), seqv.t)
                break

    def head(h):
        res = []
        for h2, seqv in eng.ev(node.iter, h):
            if isinstance(seqv, Raise):
                res.append((h2, seqv))
                continue
            if seqv.ty.kind == "optseq":
                has = seqv.items[0]
                hn = h2.fork().assume(z3.Not(has))
                res.append((hn, Raise("TypeError", origin="implicit", site="iterate None")))
                h2 = h2.assume(has)
                seqv = SV(SEQ(seqv.ty.elem), seqv.t)
            if seqv.ty.kind != "seq":
                raise Unsupported("live iteration over %r" % (seqv.ty,))
            h2.env["_seq"] = seqv
            res.append((h2, h2.env[idx].t < z3.Length(seqv.t)))
        return res

    def prefix(h):
        i = h.env[idx]
        e = eng.seq_elem(h, h.env["_seq"], i.t)
        h.env[idx] = SV(INT, i.t + 1)
        h.env["_i"] = i
        return assign_target(eng, node.target, e, h)

    def step(h, n):
        h.env["_i"] = h.env[idx]
    eng.loop_step = step
    try:
        return run_loop(eng, node, s, head, prefix, extra_havoc=(idx, "_i", "_seq"))
    finally:
        eng.loop_step = None


def for_over_seq(eng, node, s, seq, idx):
    s.env[idx] = SV(INT, z3.IntVal(0))
    s.env["_i"] = s.env[idx]
    s.env["_seq"] = seq

    def head(h):
        return [(h, h.env[idx].t < z3.Length(seq.t))]

    def prefix(h):
        i = h.env[idx]
        e = eng.seq_elem(h, seq, i.t)
        h.env[idx] = SV(INT, i.t + 1)
        h.env["_i"] = i
        return assign_target(eng, node.target, e, h)

    def step(h, n):
        h.env["_i"] = h.env[idx]
    eng.loop_step = step
    try:
        return run_loop(eng, node, s, head, prefix, extra_havoc=(idx, "_i"))
    finally:
        eng.loop_step = None
