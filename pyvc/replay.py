"""Native replay of counter-models: runs /verif/replay/driver.py under the interpreter the
test-suite uses (/venv/bin/python) against /repo's working tree."""
import json
import os
import subprocess
import sys

VERIF = os.path.dirname(os.path.dirname(os.path.abspath(__file__)))
NATIVE_PY = os.environ.get("PYVC_NATIVE_PY", "/venv/bin/python")


def try_native(path, timeout=120):
    env = dict(os.environ)
    repo = os.environ.get("PYVC_REPO", "/repo")
    env["PYTHONPATH"] = os.path.join(repo, "src") + os.pathsep + VERIF
    env.pop("PYTHONHASHSEED", None)
    try:
        p = subprocess.run([NATIVE_PY, os.path.join(VERIF, "replay", "driver.py"), path],
                           capture_output=True, text=True, timeout=timeout, env=env, cwd=VERIF)
    except subprocess.TimeoutExpired:
        return {"reproduced": False, "note": "native replay timed out"}
    out = p.stdout.strip().splitlines()
    for line in reversed(out):
        if line.startswith("{"):
            try:
                return json.loads(line)
            except Exception:
                pass
    return {"reproduced": False, "note": "native replay produced no result",
            "stderr": p.stderr[-800:], "stdout": p.stdout[-400:]}


def replay_file(path):
    if not os.path.isabs(path):
        path = os.path.join(VERIF, path)
    rec = json.load(open(path))
    res = try_native(path)
    print(json.dumps(res, indent=1))
    rel = os.path.relpath(path, VERIF)
    if res.get("reproduced"):
        print("VIOLATION property=%s replay=%s" % (rec.get("property"), rel))
        return 1
    print("replay did not reproduce a failure on the current tree (obligation %s of %s)"
          % (rec.get("obligation"), rec.get("unit")))
    return 0
