"""z3 sorts and the value model of pyvc.

Floats: ``REAL`` = a double idealised as a mathematical real (finite, no rounding);
``XREAL`` = fin(r) | nan | +inf | -inf with IEEE comparison/arithmetic on the special
values (no rounding, no overflow).  Integers are mathematical.
"""
import z3

# ---------------------------------------------------------------- XR datatype
_XR = z3.Datatype("XR")
_XR.declare("fin", ("val", z3.RealSort()))
_XR.declare("nan")
_XR.declare("pinf")
_XR.declare("ninf")
XR = _XR.create()

# ---------------------------------------------------------------- PyObj datatype
_PO = z3.Datatype("PyObj")
_PO.declare("O_int", ("ival", z3.IntSort()))
_PO.declare("O_bool", ("bval", z3.BoolSort()))
_PO.declare("O_float", ("fval", XR))
_PO.declare("O_str", ("sval", z3.StringSort()))
_PO.declare("O_none")
_PO.declare("O_ref", ("rval", z3.IntSort()))      # instance of a class (typeof gives the class)
_PO.declare("O_other", ("oid", z3.IntSort()))     # anything else (list, dict, tuple, ...), by tag
PyObj = _PO.create()

typeof = z3.Function("typeof", z3.IntSort(), z3.IntSort())     # ref -> class id

# Strings stored in sequences / used as dict keys are represented by integer ids through a
# bijection sid/sof (z3 5.1's solver for sequences of strings is unsound: it answered 'unsat'
# for  (forall s x. contains(s,[x]) -> s[indexof(s,[x])] = x)  /\  contains(ks,[k])  ).
sid = z3.Function("sid", z3.StringSort(), z3.IntSort())
sof = z3.Function("sof", z3.IntSort(), z3.StringSort())


def string_id_axioms():
    s = z3.String("sid_s")
    i = z3.Int("sid_i")
    return [z3.ForAll([s], sof(sid(s)) == s, patterns=[sid(s)]),
            z3.ForAll([i], sid(sof(i)) == i, patterns=[sof(i)])]


def enc(sv):
    """z3 term under which an element is stored in a sequence / used as a map key."""
    if sv.ty.kind == "str":
        return sid(sv.t)
    return sv.t


def dec(ty, term):
    """inverse of enc: the element value of type ty for a stored term."""
    if ty.kind == "str":
        return sof(term)
    return term


def elem_sort(ty):
    return z3.IntSort() if ty.kind == "str" else sort_of(ty)

_fresh = [0]


def fresh(prefix, sort):
    _fresh[0] += 1
    return z3.Const("%s!%d" % (prefix, _fresh[0]), sort)


# ---------------------------------------------------------------- types
class Ty:
    __slots__ = ("kind", "cls", "nullable", "elem", "elems", "key")

    def __init__(self, kind, cls=None, nullable=False, elem=None, elems=None, key=None):
        self.kind = kind
        self.cls = cls
        self.nullable = nullable
        self.elem = elem
        self.elems = elems
        self.key = key

    def __repr__(self):
        if self.kind == "ref":
            return "ref:%s%s" % (self.cls, "?" if self.nullable else "")
        if self.kind == "enum":
            return "enum:%s" % self.cls
        if self.kind == "seq":
            return "seq[%r]" % (self.elem,)
        if self.kind == "arr":
            return "arr[%r]" % (self.elem,)
        if self.kind == "set":
            return "set[%r]" % (self.elem,)
        if self.kind == "tup":
            return "tup%r" % (tuple(self.elems),)
        if self.kind == "map":
            return "map[%r,%r]" % (self.key, self.elem)
        return self.kind

    def __eq__(self, o):
        return isinstance(o, Ty) and repr(self) == repr(o)

    def __hash__(self):
        return hash(repr(self))


INT = Ty("int")
BOOL = Ty("bool")
REAL = Ty("real")
XREAL = Ty("xreal")
STR = Ty("str")
NONE = Ty("none")
OBJ = Ty("obj")
EXC = Ty("exc")


def REF(cls, nullable=False):
    return Ty("ref", cls=cls, nullable=nullable)


def SEQ(elem):
    return Ty("seq", elem=elem)


def TUP(*elems):
    return Ty("tup", elems=list(elems))


def MAP(key, elem):
    return Ty("map", key=key, elem=elem)


_tuple_sorts = {}


def tuple_sort(ty):
    # keyed by the z3 sorts of the components (all references are Int, whatever their class)
    k = "tup(" + ",".join(str(elem_sort(e)) if e.kind != "tup" else repr(e) for e in ty.elems) + ")"
    if k not in _tuple_sorts:
        name = "Tup%d" % len(_tuple_sorts)
        dt = z3.Datatype(name)
        dt.declare("mk_" + name, *[("f%d_%s" % (i, name), elem_sort(e)) for i, e in enumerate(ty.elems)])
        _tuple_sorts[k] = dt.create()
    return _tuple_sorts[k]


_map_sorts = {}


def map_sort(ty):
    """An insertion-ordered dict as (keys: Seq[K], vals: Array[K,V]).  Invariant kept by the
    operations: keys has no duplicates; vals is only meaningful on keys."""
    k = repr(ty)
    if k not in _map_sorts:
        name = "Map%d" % len(_map_sorts)
        dt = z3.Datatype(name)
        dt.declare("mk_" + name, ("keys_" + name, z3.SeqSort(elem_sort(ty.key))),
                   ("vals_" + name, z3.ArraySort(elem_sort(ty.key), sort_of(ty.elem))))
        _map_sorts[k] = dt.create()
    return _map_sorts[k]


def sort_of(ty):
    k = ty.kind
    if k == "int":
        return z3.IntSort()
    if k == "bool":
        return z3.BoolSort()
    if k == "real":
        return z3.RealSort()
    if k == "xreal":
        return XR
    if k == "str":
        return z3.StringSort()
    if k == "obj":
        return PyObj
    if k in ("ref", "exc", "none", "enum", "type"):
        return z3.IntSort()
    if k == "seq":
        return z3.SeqSort(elem_sort(ty.elem))
    if k == "tup":
        return tuple_sort(ty)
    if k == "arr":
        return z3.ArraySort(z3.IntSort(), sort_of(ty.elem))
    if k == "set":
        return z3.ArraySort(elem_sort(ty.elem), z3.BoolSort())
    if k == "map":
        return map_sort(ty)
    raise ValueError("no sort for %r" % (ty,))


def parse_type(s):
    """Type strings of the sidecar: int bool real xreal str obj none ref:Cls ref:Cls?
    seq[T] tup[T1,T2] map[K,V]."""
    if isinstance(s, Ty):
        return s
    s = s.strip()
    simple = {"int": INT, "bool": BOOL, "real": REAL, "xreal": XREAL, "str": STR,
              "obj": OBJ, "none": NONE, "exc": EXC}
    if s in simple:
        return simple[s]
    if s.startswith("enum:"):
        return Ty("enum", cls=s[5:])
    if s == "type":
        return Ty("type")
    if s.startswith("ref:"):
        c = s[4:]
        if c.endswith("?"):
            return REF(c[:-1], True)
        return REF(c)
    if s.startswith("seq[") and s.endswith("]"):
        return SEQ(parse_type(s[4:-1]))
    if s.startswith("set[") and s.endswith("]"):
        return Ty("set", elem=parse_type(s[4:-1]))
    if s.startswith("arr[") and s.endswith("]"):
        return Ty("arr", elem=parse_type(s[4:-1]))
    if s.startswith("tup[") and s.endswith("]"):
        return TUP(*[parse_type(p) for p in _split_top(s[4:-1])])
    if s.startswith("map[") and s.endswith("]"):
        k, v = _split_top(s[4:-1])
        return MAP(parse_type(k), parse_type(v))
    raise ValueError("bad type string %r" % s)


def _split_top(s):
    out, depth, cur = [], 0, ""
    for ch in s:
        if ch == "[":
            depth += 1
        if ch == "]":
            depth -= 1
        if ch == "," and depth == 0:
            out.append(cur)
            cur = ""
        else:
            cur += ch
    out.append(cur)
    return out


class SV:
    """A symbolic Python value: static type + z3 term (or a python list of SVs for tuples
    that have not been packed, kept in .items)."""
    __slots__ = ("ty", "t", "items", "const")

    def __init__(self, ty, t, items=None, const=None):
        self.ty = ty
        self.t = t
        self.items = items
        self.const = const      # python constant when statically known (str/int/float/None/bool)

    def __repr__(self):
        return "SV(%r, %s)" % (self.ty, self.t if self.items is None else self.items)


# ---------------------------------------------------------------- XR helpers
def xr_fin(r):
    return XR.fin(r)


def is_fin(x):
    return XR.is_fin(x)


def is_nan(x):
    return XR.is_nan(x)


def xval(x):
    return XR.val(x)


def to_xr(sv):
    """Numeric SV -> XR term."""
    k = sv.ty.kind
    if k == "xreal":
        return sv.t
    if k == "real":
        return XR.fin(sv.t)
    if k == "int":
        return XR.fin(z3.ToReal(sv.t))
    if k == "bool":
        return XR.fin(z3.If(sv.t, z3.RealVal(1), z3.RealVal(0)))
    if k == "obj":
        o = sv.t
        return z3.If(PyObj.is_O_int(o), XR.fin(z3.ToReal(PyObj.ival(o))),
                     z3.If(PyObj.is_O_bool(o), XR.fin(z3.If(PyObj.bval(o), z3.RealVal(1), z3.RealVal(0))),
                           PyObj.fval(o)))
    raise TypeError("not numeric: %r" % (sv,))


def xr_sign(x):
    """-1/0/1 sign as Int for non-nan XR."""
    return z3.If(XR.is_pinf(x), 1, z3.If(XR.is_ninf(x), -1,
                 z3.If(XR.val(x) > 0, 1, z3.If(XR.val(x) < 0, -1, 0))))


def xr_lt(a, b):
    return z3.And(z3.Not(XR.is_nan(a)), z3.Not(XR.is_nan(b)),
                  z3.Or(z3.And(XR.is_ninf(a), z3.Not(XR.is_ninf(b))),
                        z3.And(XR.is_pinf(b), z3.Not(XR.is_pinf(a))),
                        z3.And(XR.is_fin(a), XR.is_fin(b), XR.val(a) < XR.val(b))))


def xr_le(a, b):
    return z3.And(z3.Not(XR.is_nan(a)), z3.Not(XR.is_nan(b)),
                  z3.Or(XR.is_ninf(a), XR.is_pinf(b),
                        z3.And(XR.is_fin(a), XR.is_fin(b), XR.val(a) <= XR.val(b))))


def xr_eq(a, b):
    return z3.And(z3.Not(XR.is_nan(a)), z3.Not(XR.is_nan(b)),
                  z3.Or(z3.And(XR.is_pinf(a), XR.is_pinf(b)),
                        z3.And(XR.is_ninf(a), XR.is_ninf(b)),
                        z3.And(XR.is_fin(a), XR.is_fin(b), XR.val(a) == XR.val(b))))


def xr_neg(a):
    return z3.If(XR.is_fin(a), XR.fin(-XR.val(a)),
                 z3.If(XR.is_pinf(a), XR.ninf, z3.If(XR.is_ninf(a), XR.pinf, XR.nan)))


def xr_add(a, b):
    return z3.If(z3.Or(XR.is_nan(a), XR.is_nan(b)), XR.nan,
           z3.If(z3.And(XR.is_fin(a), XR.is_fin(b)), XR.fin(XR.val(a) + XR.val(b)),
           z3.If(XR.is_fin(a), b,
           z3.If(XR.is_fin(b), a,
           z3.If(a == b, a, XR.nan)))))


def xr_sub(a, b):
    return xr_add(a, xr_neg(b))


def _signed_inf(s):
    return z3.If(s > 0, XR.pinf, XR.ninf)


def xr_mul(a, b):
    sa, sb = xr_sign(a), xr_sign(b)
    return z3.If(z3.Or(XR.is_nan(a), XR.is_nan(b)), XR.nan,
           z3.If(z3.And(XR.is_fin(a), XR.is_fin(b)), XR.fin(XR.val(a) * XR.val(b)),
           z3.If(z3.Or(sa == 0, sb == 0), XR.nan, _signed_inf(sa * sb))))


def xr_div(a, b):
    """Python float division for b != 0 (b == 0 raises ZeroDivisionError, handled by caller)."""
    sa, sb = xr_sign(a), xr_sign(b)
    return z3.If(z3.Or(XR.is_nan(a), XR.is_nan(b)), XR.nan,
           z3.If(z3.And(XR.is_fin(a), XR.is_fin(b)), XR.fin(XR.val(a) / XR.val(b)),
           z3.If(XR.is_fin(a), XR.fin(z3.RealVal(0)),            # fin / inf = 0
           z3.If(XR.is_fin(b), _signed_inf(sa * sb),             # inf / fin(nonzero)
                 XR.nan))))                                      # inf / inf
