"""A small 'field' decision step for rational-function identities.

Used for obligations of the shape  hyps |- lhs == rhs  where the equality follows from
hypothesis equalities by substitution and field arithmetic (the streaming-moment
recurrences of the tallies).  Polynomials are exact (Fraction coefficients); nothing is
floating point.  Sound under: every denominator that occurs is proved non-zero from the
hypotheses by z3 (linear query), every substituted equality is proved to be implied by
the hypotheses by z3.  Incomplete by design: on any doubt it answers 'unknown'.
"""
from fractions import Fraction

import z3


class Poly:
    __slots__ = ("t",)

    def __init__(self, t=None):
        self.t = t or {}

    @staticmethod
    def const(c):
        c = Fraction(c)
        return Poly({(): c} if c != 0 else {})

    @staticmethod
    def var(name):
        return Poly({((name, 1),): Fraction(1)})

    def __add__(self, o):
        r = dict(self.t)
        for m, c in o.t.items():
            v = r.get(m, 0) + c
            if v == 0:
                r.pop(m, None)
            else:
                r[m] = v
        return Poly(r)

    def __neg__(self):
        return Poly({m: -c for m, c in self.t.items()})

    def __sub__(self, o):
        return self + (-o)

    def __mul__(self, o):
        r = {}
        if len(self.t) * len(o.t) > 400000:
            raise OverflowError("polynomial too large")
        for m1, c1 in self.t.items():
            d1 = dict(m1)
            for m2, c2 in o.t.items():
                d = dict(d1)
                for v, e in m2:
                    d[v] = d.get(v, 0) + e
                m = tuple(sorted(d.items()))
                v = r.get(m, 0) + c1 * c2
                if v == 0:
                    r.pop(m, None)
                else:
                    r[m] = v
        return Poly(r)

    def is_zero(self):
        return not self.t

    def vars(self):
        return {v for m in self.t for v, _ in m}

    def subst(self, name, rf):
        """Substitute variable by a rational function -> RF."""
        res = RF(Poly.const(0), Poly.const(1))
        cache = {0: RF(Poly.const(1), Poly.const(1))}

        def power(e):
            if e not in cache:
                cache[e] = power(e - 1) * rf
            return cache[e]
        for m, c in self.t.items():
            e = dict(m).get(name, 0)
            rest = tuple((v, k) for v, k in m if v != name)
            term = RF(Poly({rest: c}), Poly.const(1))
            if e:
                term = term * power(e)
            res = res + term
        return res


class RF:
    __slots__ = ("n", "d")

    def __init__(self, n, d):
        self.n, self.d = n, d

    def __add__(self, o):
        if self.d.t == o.d.t:
            return RF(self.n + o.n, self.d)
        return RF(self.n * o.d + o.n * self.d, self.d * o.d)

    def __neg__(self):
        return RF(-self.n, self.d)

    def __sub__(self, o):
        return self + (-o)

    def __mul__(self, o):
        return RF(self.n * o.n, self.d * o.d)

    def div(self, o):
        return RF(self.n * o.d, self.d * o.n)

    def subst(self, name, rf):
        a = self.n.subst(name, rf)
        b = self.d.subst(name, rf)
        return a.div(b)


class NotField(Exception):
    pass


def to_rf(t, dens):
    """z3 pure arithmetic term -> RF; records every divisor term in dens."""
    if z3.is_int_value(t):
        return RF(Poly.const(t.as_long()), Poly.const(1))
    if z3.is_rational_value(t):
        return RF(Poly.const(Fraction(t.numerator_as_long(), t.denominator_as_long())), Poly.const(1))
    if z3.is_const(t) and t.decl().kind() == z3.Z3_OP_UNINTERPRETED:
        return RF(Poly.var(t.decl().name()), Poly.const(1))
    if z3.is_app(t):
        k = t.decl().kind()
        ch = t.children()
        if k == z3.Z3_OP_ADD:
            r = to_rf(ch[0], dens)
            for c in ch[1:]:
                r = r + to_rf(c, dens)
            return r
        if k == z3.Z3_OP_SUB:
            r = to_rf(ch[0], dens)
            for c in ch[1:]:
                r = r - to_rf(c, dens)
            return r
        if k == z3.Z3_OP_UMINUS:
            return -to_rf(ch[0], dens)
        if k == z3.Z3_OP_MUL:
            r = to_rf(ch[0], dens)
            for c in ch[1:]:
                r = r * to_rf(c, dens)
            return r
        if k == z3.Z3_OP_DIV:
            dens.append(ch[1])
            return to_rf(ch[0], dens).div(to_rf(ch[1], dens))
        if k == z3.Z3_OP_TO_REAL:
            return to_rf(ch[0], dens)
    raise NotField(str(t)[:80])


def eq_atoms(f, out):
    if z3.is_app(f):
        k = f.decl().kind()
        if k == z3.Z3_OP_EQ and f.arg(0).sort() == z3.RealSort():
            out.append(f)
        elif k in (z3.Z3_OP_AND, z3.Z3_OP_OR, z3.Z3_OP_IMPLIES):
            for c in f.children():
                eq_atoms(c, out)


def prove_identity(hyps, goal, timeout_ms=1500, max_subst=40):
    """hyps, goal: purified (pure arithmetic / propositional) z3 formulas.  Returns True iff
    the goal equality was established; False means 'unknown'."""
    goal = z3.simplify(goal)
    # goal: eq  |  Or(c1.., eq)
    side = []
    eq = None
    if z3.is_eq(goal):
        eq = goal
    elif z3.is_or(goal):
        for c in goal.children():
            if z3.is_eq(c) and c.arg(0).sort() == z3.RealSort() and eq is None:
                eq = c
            else:
                side.append(z3.Not(c))
    elif z3.is_implies(goal) and z3.is_eq(goal.arg(1)):
        side.append(goal.arg(0))
        eq = goal.arg(1)
    if eq is None or eq.arg(0).sort() != z3.RealSort():
        return False
    base = list(hyps) + side
    # side queries (is this hypothesis equality a unit fact?  is this denominator non-zero?)
    # are decided on a *linear abstraction* of the hypotheses: every non-linear subterm is
    # replaced by a fresh constant (same term -> same constant).  That only weakens the
    # hypotheses, keeps the queries in linear arithmetic + propositional logic, and makes
    # them fast and stable.
    lin = Linearizer()
    lbase = [lin.formula(h) for h in base]

    def implied(f):
        s = z3.Solver()
        s.set("timeout", timeout_ms)
        for h in lbase:
            s.add(h)
        s.add(z3.Not(lin.formula(f)))
        return s.check() == z3.unsat
    # candidate definitional equalities occurring in the hypotheses
    cands = []
    for h in base:
        eq_atoms(h, cands)
    defs = {}
    seen = set()
    for e in cands:
        if e.get_id() in seen:
            continue
        seen.add(e.get_id())
        a, b = e.arg(0), e.arg(1)
        for x, y in ((a, b), (b, a)):
            if z3.is_const(x) and x.decl().kind() == z3.Z3_OP_UNINTERPRETED and x.decl().name() not in defs:
                try:
                    dens = []
                    rf = to_rf(y, dens)
                except (NotField, OverflowError):
                    continue
                name = x.decl().name()
                if name in rf.n.vars() or name in rf.d.vars():
                    continue
                if not implied(e):
                    break
                if not all(implied(d != 0) for d in dens):
                    break
                defs[name] = rf
                break
    try:
        dens = []
        diff = to_rf(eq.arg(0), dens) - to_rf(eq.arg(1), dens)
        if not all(implied(d != 0) for d in dens):
            return False
        # substitute definitions until none of the defined variables is left
        for _ in range(max_subst):
            vs = (diff.n.vars() | diff.d.vars()) & set(defs)
            if not vs:
                break
            # substitute one variable whose definition does not mention other defined vars first
            pick = None
            for v in sorted(vs):
                dv = (defs[v].n.vars() | defs[v].d.vars()) & set(defs)
                if not dv:
                    pick = v
                    break
            if pick is None:
                pick = sorted(vs)[0]
            diff = diff.subst(pick, defs[pick])
            if diff.n.is_zero():
                return True
        return diff.n.is_zero()
    except (NotField, OverflowError):
        return False


class Linearizer:
    def __init__(self):
        self.memo = {}
        self.keep = []
        self.n = 0

    def fresh(self, t):
        k = t.get_id()
        self.keep.append(t)
        if k not in self.memo:
            self.n += 1
            self.memo[k] = z3.Real("lin!%d" % self.n)
        return self.memo[k]

    def term(self, t):
        if z3.is_app(t):
            k = t.decl().kind()
            ch = t.children()
            if k in (z3.Z3_OP_ADD, z3.Z3_OP_SUB, z3.Z3_OP_UMINUS):
                cs = [self.term(c) for c in ch]
                if k == z3.Z3_OP_ADD:
                    return z3.Sum(cs)
                if k == z3.Z3_OP_UMINUS:
                    return -cs[0]
                r = cs[0]
                for c in cs[1:]:
                    r = r - c
                return r
            if k == z3.Z3_OP_MUL:
                nonconst = [c for c in ch if not z3.is_rational_value(c)]
                if len(nonconst) >= 2:
                    return self.fresh(t)
                r = self.term(ch[0])
                for c in ch[1:]:
                    r = r * self.term(c)
                return r
            if k == z3.Z3_OP_DIV:
                if z3.is_rational_value(ch[1]):
                    return self.term(ch[0]) / ch[1]
                return self.fresh(t)
            if k == z3.Z3_OP_ITE:
                return z3.If(self.formula(ch[0]), self.term(ch[1]), self.term(ch[2]))
        return t

    def formula(self, f):
        if z3.is_app(f):
            k = f.decl().kind()
            ch = f.children()
            if k in (z3.Z3_OP_AND, z3.Z3_OP_OR, z3.Z3_OP_NOT, z3.Z3_OP_IMPLIES):
                cs = [self.formula(c) for c in ch]
                return {z3.Z3_OP_AND: lambda: z3.And(*cs), z3.Z3_OP_OR: lambda: z3.Or(*cs),
                        z3.Z3_OP_NOT: lambda: z3.Not(cs[0]), z3.Z3_OP_IMPLIES: lambda: z3.Implies(cs[0], cs[1])}[k]()
            if k == z3.Z3_OP_ITE:
                return z3.If(self.formula(ch[0]), self.formula(ch[1]), self.formula(ch[2]))
            if ch and ch[0].sort() == z3.RealSort():
                a = self.term(ch[0])
                b = self.term(ch[1]) if len(ch) > 1 else None
                if k == z3.Z3_OP_EQ:
                    return a == b
                if k == z3.Z3_OP_DISTINCT and len(ch) == 2:
                    return a != b
                if k == z3.Z3_OP_LE:
                    return a <= b
                if k == z3.Z3_OP_LT:
                    return a < b
                if k == z3.Z3_OP_GE:
                    return a >= b
                if k == z3.Z3_OP_GT:
                    return a > b
            if k == z3.Z3_OP_EQ and ch[0].sort() == z3.BoolSort():
                return self.formula(ch[0]) == self.formula(ch[1])
        return f
