"""Call handling for the pyvc engine: builtins, dependency contracts, spec functions,
contract application at call sites, inlining, constructors."""
import ast

import z3

from . import sorts as S
from .sorts import SV, Ty, INT, BOOL, REAL, XREAL, STR, NONE, OBJ, REF, SEQ, TUP, MAP, XR, PyObj
from .engine import (Unsupported, Raise, mk_int, mk_bool, mk_real, mk_str, mk_none, NUMERIC,
                     EXC_PARENTS, exc_is)

SKIP_CALLS = {("time", "sleep"), ("logger", "debug"), ("logger", "info"), ("logger", "log"), ("logger", "warning"),
              ("logger", "error"), ("logger", "critical"), ("traceback", "print_exc")}


# ---------------------------------------------------------------------------- lvalues
class NameLV:
    def __init__(self, name):
        self.name = name

    def get(self, eng, st):
        return st.env[self.name]

    def set(self, eng, st, sv):
        st.env[self.name] = sv

    def owned(self, eng, st):
        v = st.env.get(self.name)
        return v is not None and v.const == "fresh"


class AttrLV:
    def __init__(self, obj, name):
        self.obj = obj
        self.name = name

    def get(self, eng, st):
        return eng.load_field(st, self.obj.t, self.obj.ty.cls, self.name)

    def set(self, eng, st, sv):
        eng.store_field(st, self.obj.t, self.obj.ty.cls, self.name, sv)

    def owned(self, eng, st):
        return True


class SubLV:
    def __init__(self, parent, key):
        self.parent = parent
        self.key = key

    def _key(self, eng, st, base):
        k, c = eng.coerce(self.key, base.ty.key)
        if c is not None and not eng.spec:
            eng.oblige("type.dict-key", "type", st, c)
            st.assume(c)
        return k

    def get(self, eng, st):
        base = self.parent.get(eng, st)
        if base.ty.kind == "map":
            return eng.map_elem(st, base, self._key(eng, st, base))
        raise Unsupported("sub-lvalue get on %r" % (base.ty,))

    def set(self, eng, st, sv):
        base = self.parent.get(eng, st)
        if base.ty.kind == "map":
            k = self._key(eng, st, base)
            v, c = eng.coerce(sv, base.ty.elem)
            if c is not None and not eng.spec:
                eng.oblige("type.dict-value", "type", st, c)
                st.assume(c)
            keys, vals = eng.map_keys(base), eng.map_vals(base)
            has = z3.Contains(keys, z3.Unit(S.enc(k)))
            nk = z3.If(has, keys, z3.Concat(keys, z3.Unit(S.enc(k))))
            self.parent.set(eng, st, eng.map_mk(base.ty, nk, z3.Store(vals, S.enc(k), v.t)))
            return
        raise Unsupported("sub-lvalue set on %r" % (base.ty,))

    def owned(self, eng, st):
        return self.parent.owned(eng, st)


def lvalue(eng, node, st):
    """-> list of (state, LV | Raise)"""
    if isinstance(node, ast.Name):
        return [(st, NameLV(node.id))]
    if isinstance(node, ast.Attribute):
        outs = []
        for s, o in eng.ev(node.value, st):
            if isinstance(o, Raise):
                outs.append((s, o))
            elif o.ty.kind != "ref":
                raise Unsupported("attribute lvalue on %r" % (o.ty,))
            else:
                name = node.attr
                if eng.field_decl(o.ty.cls, name) is None and name.startswith("__") and eng.cur_class:
                    name = "_%s%s" % (eng.cur_class, name)
                if eng.field_decl(o.ty.cls, name) is None:
                    # a property whose getter is `return self.<field>` (for every concrete subclass): the path denotes the
                    # object held in that field, so in-place operations through it act on the field's value
                    pf = eng.table.resolve(o.ty.cls, name) if o.ty.cls in eng.table.classes else None
                    gf = getter_field(eng, o.ty.cls, name) if pf is not None and pf.is_property else None
                    if gf is not None:
                        name = gf[1]
                outs.append((s, AttrLV(o, name)))
        return outs
    if isinstance(node, ast.Subscript):
        outs = []
        for s, p in lvalue(eng, node.value, st):
            if isinstance(p, Raise):
                outs.append((s, p))
                continue
            for s2, k in eng.ev(node.slice, s):
                if isinstance(k, Raise):
                    outs.append((s2, k))
                else:
                    outs.append((s2, SubLV(p, k)))
        return outs
    if isinstance(node, ast.Call):
        # x.getter() where every (closed-world) implementation is the one-line getter of the same declared
        # field: the call denotes that field, so a container mutation through it is a mutation of the field
        if isinstance(node.func, ast.Attribute) and not node.args and not node.keywords:
            outs, ok = [], True
            for s, o in eng.ev(node.func.value, st):
                if isinstance(o, Raise):
                    outs.append((s, o))
                    continue
                if o.ty.kind == "obj":
                    o = eng.refine_to_ref(o, node.func.attr, s)
                if o is None or o.ty.kind != "ref" or o.ty.nullable:
                    ok = False
                    break
                hit = getter_field(eng, o.ty.cls, node.func.attr)
                if hit is None:
                    ok = False
                    break
                outs.append((s, AttrLV(SV(REF(hit[0]), o.t), hit[1])))
            if ok and outs:
                return outs
        # e.g. self.eventlist().clear(): receiver is a call result -> only refs make sense
        return [(s, v if isinstance(v, Raise) else ValueLV(v)) for s, v in eng.ev(node, st)]
    raise Unsupported("lvalue %s" % type(node).__name__)


def getter_field(eng, static, name):
    """(class, field) when ``name`` resolves, for every concrete subclass of ``static``, to a one-line getter
    ``return self.<field>`` of one and the same declared field (abstract declarations ignored)."""
    if static not in eng.table.classes:
        return None
    found = set()
    for c in eng.table.subclasses(static):
        f = eng.table.resolve(c, name)
        if f is None:
            return None
        if f.is_abstract:
            continue
        if eng.reg.contracts.get(f.qual) is not None and not eng.reg.contracts[f.qual].inline:
            return None
        b = f.body
        if not (len(b) == 1 and isinstance(b[0], ast.Return) and isinstance(b[0].value, ast.Attribute)
                and isinstance(b[0].value.value, ast.Name) and b[0].value.value.id == "self"):
            return None
        fld = b[0].value.attr
        if eng.field_decl(c, fld) is None:
            return None
        found.add((eng.field_key(c, fld), fld))
    if len(found) != 1:
        return None
    key, fld = found.pop()
    return key.split(".")[0], fld


class ValueLV:
    def __init__(self, v):
        self.v = v

    def get(self, eng, st):
        return self.v

    def set(self, eng, st, sv):
        raise Unsupported("mutation of a temporary container")

    def owned(self, eng, st):
        return self.v.const == "fresh"


# ---------------------------------------------------------------------------- entry
def ev_call(eng, node, st):
    fn = node.func
    if isinstance(fn, ast.Call) and isinstance(fn.func, ast.Name) and fn.func.id == "type" and len(fn.args) == 1 \
            and len(node.args) == 2 and not node.keywords and eng.reg.specfuns.get("type_call_ref2"):
        # type(x)(v, u): construction of an object of x's class from two arguments (Quantity: value and unit)
        outs = []
        for s, vals in eng.ev_seq([fn.args[0], node.args[0], node.args[1]], st):
            if isinstance(vals, Raise):
                outs.append((s, vals))
            else:
                outs += eng.reg.specfuns["type_call_ref2"](eng, s, vals[0], vals[1], vals[2])
        return outs
    if isinstance(fn, ast.Call) and isinstance(fn.func, ast.Name) and fn.func.id == "type" and len(fn.args) == 1 \
            and len(node.args) == 1 and not node.keywords:
        # type(x)(v): a value of x's own type built from v (used as "zero of the same type")
        outs = []
        for s, vals in eng.ev_seq([fn.args[0], node.args[0]], st):
            if isinstance(vals, Raise):
                outs.append((s, vals))
                continue
            x, v = eng.refine_obj(vals[0], s), vals[1]
            k = x.ty.kind
            if k in ("int", "bool"):
                outs.append((s, eng.coerce(v, INT)[0]))
            elif k in ("real", "xreal"):
                outs.append((s, eng.coerce(v, k == "real" and REAL or XREAL)[0]))
            elif k == "obj":
                # a number of unknown numeric type: int(v) / float(v) have the same numeric value
                outs += eng.implicit(s, "TypeError", z3.Not(eng.is_numeric_obj(x)),
                                     lambda s2, v=v: [(s2, SV(XREAL, S.to_xr(v)))])
            else:
                hook = eng.reg.specfuns.get("type_call_" + k)
                if hook is None:
                    raise Unsupported("type(x)(v) for %r" % (x.ty,))
                outs += hook(eng, s, x, v)
        return outs
    if isinstance(fn, ast.Name) and fn.id == "list" and len(node.args) == 1 and not node.keywords:
        r = list_map_pattern(eng, node.args[0], st)
        if r is not None:
            return r
    if isinstance(fn, ast.Name):
        return call_name(eng, node, fn.id, st)
    if isinstance(fn, ast.Attribute):
        return call_attr(eng, node, fn, st)
    raise Unsupported("call of %s" % type(fn).__name__)


def list_map_pattern(eng, m, st):
    """list(map(lambda x, y: x + y, A, B)) / (x - y): the elementwise sum / difference of two int sequences, as long as the
    shorter one (map stops there).  Anything else: None (not this pattern)."""
    if not (isinstance(m, ast.Call) and isinstance(m.func, ast.Name) and m.func.id == "map" and len(m.args) == 3 and not m.keywords):
        return None
    lam = m.args[0]
    if not (isinstance(lam, ast.Lambda) and len(lam.args.args) == 2 and isinstance(lam.body, ast.BinOp)
            and isinstance(lam.body.op, (ast.Add, ast.Sub)) and isinstance(lam.body.left, ast.Name) and isinstance(lam.body.right, ast.Name)
            and [lam.body.left.id, lam.body.right.id] == [a.arg for a in lam.args.args]):
        return None
    return elementwise(eng, m.args[1], m.args[2], 1 if isinstance(lam.body.op, ast.Add) else -1, st)


def elementwise(eng, anode, bnode, sign, st):
    """the elementwise sum (sign 1) / difference (sign -1) of two int sequences, as long as the shorter one"""
    outs = []
    for s, vals in eng.ev_seq([anode, bnode], st):
        if isinstance(vals, Raise):
            outs.append((s, vals))
            continue
        a, b = vals
        if not (a.ty.kind == "seq" and b.ty.kind == "seq" and a.ty.elem.kind == "int" and b.ty.elem.kind == "int"):
            raise Unsupported("list(map(lambda ...)) over %r, %r" % (a.ty, b.ty))
        r = S.fresh("mapped", S.sort_of(a.ty))
        i = z3.Int("lm_i")
        n = z3.If(z3.Length(a.t) <= z3.Length(b.t), z3.Length(a.t), z3.Length(b.t))
        s.assume(z3.Length(r) == n)
        s.assume(z3.ForAll([i], z3.Implies(z3.And(0 <= i, i < n), r[i] == a.t[i] + sign * b.t[i]), patterns=[r[i]]))
        outs.append((s, SV(a.ty, r, const="fresh")))
    return outs


def eval_args(eng, node, st):
    """-> list of (state, (args, kwargs) | Raise)"""
    if any(isinstance(a, ast.Starred) for a in node.args):
        raise Unsupported("*args")
    kwnodes = [k for k in node.keywords]
    star = [k for k in kwnodes if k.arg is None]
    named = [k for k in kwnodes if k.arg is not None]
    outs = []
    for s, vals in eng.ev_seq(list(node.args) + [k.value for k in named] + [k.value for k in star], st):
        if isinstance(vals, Raise):
            outs.append((s, vals))
            continue
        n = len(node.args)
        args = vals[:n]
        kwargs = {k.arg: v for k, v in zip(named, vals[n:n + len(named)])}
        if star:
            kwargs["**"] = vals[n + len(named)]
        outs.append((s, (args, kwargs)))
    return outs


def with_args(eng, node, st, fn):
    outs = []
    for s, ak in eval_args(eng, node, st):
        if isinstance(ak, Raise):
            outs.append((s, ak))
        else:
            outs += fn(s, ak[0], ak[1])
    return outs


# ---------------------------------------------------------------------------- by name
def call_name(eng, node, name, st):
    # ---- spec-only forms
    if eng.spec:
        r = spec_call(eng, node, name, st)
        if r is not None:
            return r
    if name == "assume":
        v = eng.spec_eval(node.args[0], st)
        st.assume(v)
        return [(st, mk_none())]
    if name == "issubclass" and eng.reg.specfuns.get("issubclass_of") and isinstance(node.args[1], ast.Name):
        return with_args(eng, ast.Call(func=node.func, args=[node.args[0]], keywords=[]), st,
                         lambda s, a, k: [(s, eng.reg.specfuns["issubclass_of"](eng, a[0], node.args[1].id))])
    if name == "isinstance" or name == "issubclass":
        return with_args(eng, ast.Call(func=node.func, args=[node.args[0]], keywords=[]), st,
                         lambda s, a, k: [(s, mk_bool(isinstance_multi(eng, a[0], node.args[1], s, name)))])
    if name == "print":
        eng.dropped["log/print"] += 1
        return with_args(eng, node, st, lambda s, a, k: [(s, mk_none())])
    if name == "sleep":
        eng.dropped["sleep"] += 1
        return [(st, mk_none())]
    if name in BUILTINS:
        return with_args(eng, node, st, lambda s, a, k: BUILTINS[name](eng, s, a, k, node))
    if name in EXC_PARENTS or name.endswith("Error"):
        return with_args(eng, node, st, lambda s, a, k: [(s, SV(S.EXC, S.fresh("exc", z3.IntSort()), const=name))])
    if name in eng.reg.macros or name in eng.reg.specfuns:
        r = spec_call(eng, node, name, st)
        if r is not None:
            return r
    if name in eng.table.classes or ("construct_" + name) in eng.reg.specfuns:
        return with_args(eng, node, st, lambda s, a, k: construct(eng, name, a, k, s))
    if name in eng.table.functions:
        f = eng.table.functions[name]
        return with_args(eng, node, st, lambda s, a, k: call_function(eng, f, None, a, k, s, None, False))
    if name == "super":
        raise Unsupported("bare super()")
    if ("callhook_" + name) in eng.reg.specfuns and name not in st.env:
        # a builtin modelled by a contract module on the unevaluated call (its arguments may be lambdas)
        return eng.reg.specfuns["callhook_" + name](eng, node, st)
    if name in st.env:
        if st.env[name].ty.kind == "type" and eng.reg.specfuns.get("type_value_call"):
            # a class object held in a local variable, called as a constructor
            tv = st.env[name]
            return with_args(eng, node, st, lambda s, a, k: eng.reg.specfuns["type_value_call"](eng, s, tv, a, k))
        # calling a local callable (e.g. self._method(**kwargs)) -> handled in call_attr; here: local var
        raise Unsupported("call of local callable %s" % name)
    raise Unsupported("call of %s" % name)


def isinstance_multi(eng, v, clsnode, st, fname="isinstance"):
    if isinstance(clsnode, ast.Tuple):
        return z3.Or(*[isinstance_multi(eng, v, c, st) for c in clsnode.elts])
    if isinstance(clsnode, ast.Name):
        cname = clsnode.id
        if cname in st.env:
            tv = st.env[cname]
            if tv.ty.kind == "type":
                return isinstance_type(eng, v, tv, fname)
            raise Unsupported("isinstance with dynamic class")
        return eng.isinstance_sv(v, cname)
    if isinstance(clsnode, ast.Attribute):
        # self._time_type etc.
        outs = eng.ev(clsnode, st)
        if len(outs) == 1 and not isinstance(outs[0][1], Raise) and outs[0][1].ty.kind == "type":
            return isinstance_type(eng, v, outs[0][1], fname)
        return eng.isinstance_sv(v, clsnode.attr)
    # any other expression: a type object computed at run time (e.g. metadata.get(key))
    outs = eng.ev(clsnode, st)
    if len(outs) == 1 and not isinstance(outs[0][1], Raise) and outs[0][1].ty.kind == "obj":
        f = eng.reg.ufun("isinst_dyn", PyObj, PyObj, z3.BoolSort())
        return f(eng.to_obj(v), outs[0][1].t)
    raise Unsupported("isinstance class expr")


def isinstance_type(eng, v, tv, fname):
    """v against a symbolic type value (kind 'type': int code 1=int, 2=float, 3=Duration...)."""
    fn = eng.reg.specfuns.get("isinstance_of_type")
    if fn is None:
        raise Unsupported("isinstance with symbolic type")
    return fn(eng, v, tv).t


# ---------------------------------------------------------------------------- spec calls
def spec_call(eng, node, name, st):
    if name == "old":
        if eng.old_state is None:
            raise Unsupported("old() without pre-state")
        s = st.fork()
        s.heap = dict(eng.old_state.heap)
        saved = eng.spec
        eng.spec = True
        try:
            return [(st, eng.ev1(node.args[0], s))]
        finally:
            eng.spec = saved
    if name == "implies":
        a = eng.spec_eval(node.args[0], st)
        b = eng.spec_eval(node.args[1], st)
        return [(st, mk_bool(z3.Implies(a, b)))]
    if name == "iff":
        a = eng.spec_eval(node.args[0], st)
        b = eng.spec_eval(node.args[1], st)
        return [(st, mk_bool(a == b))]
    if name == "ite":
        c = eng.spec_eval(node.args[0], st)
        a = eng.spec_value(node.args[1], st)
        b = eng.spec_value(node.args[2], st)
        a, b = eng.unify(a, b)
        return [(st, SV(a.ty, z3.If(c, a.t, b.t)))]
    if name in ("forall", "exists"):
        # forall("i:int, j:int", body-expr)   (body as an expression using the bound names)
        decl = node.args[0].value
        vars_ = []
        env = {}
        for part in S._split_top(decl):
            n, t = part.split(":", 1)
            ty = S.parse_type(t.strip())
            # deterministic bound-variable names: the same clause evaluated twice in the same state
            # yields the *same* z3 term (hash-consing), so it can be discharged syntactically
            c = z3.Const("q_%s" % n.strip(), S.sort_of(ty))
            vars_.append(c)
            env[n.strip()] = SV(ty, c)
        body = eng.spec_eval(node.args[1], st, env=env)
        q = z3.ForAll(vars_, body) if name == "forall" else z3.Exists(vars_, body)
        return [(st, mk_bool(q))]
    if name in eng.reg.macros:
        params, text = eng.reg.macros[name]
        vals = [eng.spec_value(a, st) for a in node.args]
        if len(vals) != len(params):
            raise Unsupported("macro %s arity" % name)
        env = dict(zip(params, vals))
        return [(st, eng.spec_value(text, st, env=env))]
    if name in eng.reg.specfuns:
        vals = [eng.spec_value(a, st) for a in node.args]
        eng._spec_state = st
        r = eng.reg.specfuns[name](eng, *vals)
        return [(st, r)]
    if name in SPEC_BUILTINS:
        vals = [eng.spec_value(a, st) for a in node.args]
        return [(st, SPEC_BUILTINS[name](eng, st, *vals))]
    return None


def _sb_isnan(eng, st, x):
    if x.ty.kind in ("int", "real", "bool"):
        return mk_bool(False)
    return mk_bool(XR.is_nan(S.to_xr(x)))


def _sb_isfin(eng, st, x):
    if x.ty.kind in ("int", "real", "bool"):
        return mk_bool(True)
    if x.ty.kind == "obj":
        return mk_bool(z3.And(eng.is_numeric_obj(x), XR.is_fin(S.to_xr(x))))
    return mk_bool(XR.is_fin(S.to_xr(x)))


def _sb_val(eng, st, x):
    return SV(REAL, z3.simplify(XR.val(S.to_xr(x))))


def _sb_same(eng, st, a, b):
    """Structural identity of two values (nan same as nan) -- for frame clauses."""
    a, b = eng.unify(a, b)
    return mk_bool(a.t == b.t)


def _sb_isnum(eng, st, x):
    if x.ty.kind in NUMERIC:
        return mk_bool(True)
    if x.ty.kind == "obj":
        return mk_bool(eng.is_numeric_obj(x))
    return mk_bool(False)


def _sb_isint(eng, st, x):
    if x.ty.kind in ("int", "bool"):
        return mk_bool(True)
    if x.ty.kind == "obj":
        return mk_bool(z3.Or(PyObj.is_O_int(x.t), PyObj.is_O_bool(x.t)))
    return mk_bool(False)


def _sb_isfloat(eng, st, x):
    if x.ty.kind in ("real", "xreal"):
        return mk_bool(True)
    if x.ty.kind == "obj":
        return mk_bool(PyObj.is_O_float(x.t))
    return mk_bool(False)


def _sb_isstr(eng, st, x):
    if x.ty.kind == "str":
        return mk_bool(True)
    if x.ty.kind == "obj":
        return mk_bool(PyObj.is_O_str(x.t))
    return mk_bool(False)


def _sb_isbool(eng, st, x):
    if x.ty.kind == "bool":
        return mk_bool(True)
    if x.ty.kind == "obj":
        return mk_bool(PyObj.is_O_bool(x.t))
    return mk_bool(False)


def _sb_isnone(eng, st, x):
    return mk_bool(eng.identical(x, mk_none()))


def _sb_num(eng, st, x):
    return SV(XREAL, S.to_xr(x))


def _sb_len(eng, st, x):
    if x.ty.kind in ("seq", "str"):
        return SV(INT, z3.Length(x.t))
    if x.ty.kind == "map":
        return SV(INT, z3.Length(eng.map_keys(x)))
    raise Unsupported("len in spec")


def _sb_sqrt(eng, st, x):
    return SV(REAL, sqrt_term(eng, eng.coerce(x, REAL)[0].t))


def _sb_typeis(eng, st, x, c):
    if x.ty.kind == "obj":
        return mk_bool(z3.And(PyObj.is_O_ref(x.t), S.typeof(PyObj.rval(x.t)) == eng.class_id(c.const)))
    return mk_bool(S.typeof(x.t) == eng.class_id(c.const))


def _sb_sametype(eng, st, x, y):
    """x and y are references to objects of the same dynamic class"""
    tx = S.typeof(x.t) if x.ty.kind == "ref" else S.typeof(PyObj.rval(x.t))
    ty = S.typeof(y.t) if y.ty.kind == "ref" else S.typeof(PyObj.rval(y.t))
    ok = [PyObj.is_O_ref(v.t) for v in (x, y) if v.ty.kind == "obj"]
    return mk_bool(z3.And(tx == ty, *ok))


def _sb_typeis_builtin(eng, st, x, name):
    """type(x) is exactly the builtin class (bool is not int, a Quantity is not float)"""
    o = eng.to_obj(x)
    return mk_bool({"int": PyObj.is_O_int, "float": PyObj.is_O_float, "bool": PyObj.is_O_bool, "str": PyObj.is_O_str}[name.const](o))


def _sb_isfresh(eng, st, r):
    """the reference denotes an object allocated by this call (not one that existed in the pre-state)"""
    base = eng.old_state.nalloc if eng.old_state is not None else 0
    return mk_bool(r.t >= eng.A0 + base)


def _sb_instance(eng, st, x, c):
    return mk_bool(eng.isinstance_sv(x, c.const))


def _sb_keys(eng, st, m):
    return SV(SEQ(m.ty.key), eng.map_keys(m))


def _sb_seq_empty(eng, st, x):
    return mk_bool(z3.Length(x.t) == 0)


def _sb_ival(eng, st, x):
    return eng.coerce(x, INT)[0]


def _sb_seq_empty_real(eng, st):
    return SV(SEQ(REAL), z3.Empty(z3.SeqSort(z3.RealSort())))


def _sb_powf(eng, st, x, y):
    return SV(REAL, eng.powf()(eng.coerce(x, REAL)[0].t, eng.coerce(y, REAL)[0].t))


def _sb_isinf(eng, st, x):
    if x.ty.kind in ("int", "real", "bool"):
        return mk_bool(False)
    t = S.to_xr(x)
    return mk_bool(z3.Or(XR.is_pinf(t), XR.is_ninf(t)))


def _sb_store(eng, st, a, i, v):
    x = eng.coerce(v, a.ty.elem)[0]
    return SV(a.ty, z3.Store(a.t, eng.coerce(i, INT)[0].t, x.t))


def _sb_isref(eng, st, x):
    if x.ty.kind == "ref":
        return mk_bool(True)
    if x.ty.kind == "obj":
        return mk_bool(PyObj.is_O_ref(x.t))
    return mk_bool(False)


def _sb_has(eng, st, m, k):
    kk = eng.coerce(k, m.ty.key)[0]
    return mk_bool(eng.map_has(m, kk))


def _sb_get(eng, st, m, k):
    kk = eng.coerce(k, m.ty.key)[0]
    return SV(m.ty.elem, z3.Select(eng.map_vals(m), S.enc(kk)))


def _sb_contains(eng, st, sq, x):
    if sq.ty.kind == "str":
        return mk_bool(z3.Contains(sq.t, eng.coerce(x, STR)[0].t))
    xx = eng.pack(eng.coerce(x, sq.ty.elem)[0])
    return mk_bool(seq_member(eng, sq, xx))


def _sb_nodup(eng, st, sq):
    f = eng.reg.ufun("nodup_ref", z3.SeqSort(z3.IntSort()), z3.BoolSort())
    return mk_bool(f(sq.t))


def _sb_rm(eng, st, sq, x):
    xx = eng.coerce(x, sq.ty.elem)[0]
    return SV(sq.ty, seq_remove_first(eng, sq, xx))


def _sb_map_put(eng, st, m, k, v):
    kk = eng.coerce(k, m.ty.key)[0]
    vv = eng.coerce(v, m.ty.elem)[0]
    keys, vals = eng.map_keys(m), eng.map_vals(m)
    has = z3.Contains(keys, z3.Unit(S.enc(kk)))
    return eng.map_mk(m.ty, z3.If(has, keys, z3.Concat(keys, z3.Unit(S.enc(kk)))), z3.Store(vals, S.enc(kk), vv.t))


def _sb_map_del(eng, st, m, k):
    kk = eng.coerce(k, m.ty.key)[0]
    return SV(m.ty, z3.If(eng.map_has(m, kk), map_delete(eng, m, kk).t, m.t))


def _sb_mapeq(eng, st, a, b):
    """Extensional equality of two ordered maps: same key order, same value on every key
    (values stored for absent keys are junk and do not count)."""
    k = z3.Const("q_mk", S.elem_sort(a.ty.key))
    ka, kb = eng.map_keys(a), eng.map_keys(b)
    return mk_bool(z3.And(ka == kb, z3.ForAll([k], z3.Implies(z3.Contains(ka, z3.Unit(k)),
                                                              z3.Select(eng.map_vals(a), k) == z3.Select(eng.map_vals(b), k)))))


def _sb_indexof(eng, st, sq, x):
    xx = eng.coerce(x, sq.ty.elem)[0]
    return SV(INT, z3.IndexOf(sq.t, z3.Unit(S.enc(xx)), 0))


# ---- dynamic dict values (PyObj.O_other with kind 1): contents through uninterpreted functions
def dyn_dict_funs(eng):
    r = eng.reg
    return {"kind": r.ufun("other_kind", z3.IntSort(), z3.IntSort()),
            "len": r.ufun("other_len", z3.IntSort(), z3.IntSort()),
            "keys": r.ufun("dict_keys", z3.IntSort(), z3.SeqSort(PyObj)),
            "has": r.ufun("dict_has", z3.IntSort(), PyObj, z3.BoolSort()),
            "get": r.ufun("dict_get", z3.IntSort(), PyObj, PyObj)}


def is_dyn_dict(eng, o):
    f = dyn_dict_funs(eng)
    return z3.And(PyObj.is_O_other(o), f["kind"](PyObj.oid(o)) == 1)


def dyn_dict_wf(eng, o):
    """Facts about a dict value: len = number of keys, keys() lists exactly the present keys."""
    f = dyn_dict_funs(eng)
    i = PyObj.oid(o)
    k = z3.Const("q_dk", PyObj)
    return z3.And(f["len"](i) == z3.Length(f["keys"](i)), f["len"](i) >= 0,
                  z3.ForAll([k], f["has"](i, k) == z3.Contains(f["keys"](i), z3.Unit(k)),
                            patterns=[f["has"](i, k)]))


def _sb_isdict(eng, st, x):
    return mk_bool(is_dyn_dict(eng, eng.to_obj(x)))


def _sb_dlen(eng, st, x):
    return SV(INT, dyn_dict_funs(eng)["len"](PyObj.oid(eng.to_obj(x))))


def _sb_dkeys(eng, st, x):
    return SV(SEQ(OBJ), dyn_dict_funs(eng)["keys"](PyObj.oid(eng.to_obj(x))))


def _sb_dhas(eng, st, x, k):
    return mk_bool(dyn_dict_funs(eng)["has"](PyObj.oid(eng.to_obj(x)), eng.to_obj(k)))


def _sb_dget(eng, st, x, k):
    return SV(OBJ, dyn_dict_funs(eng)["get"](PyObj.oid(eng.to_obj(x)), eng.to_obj(k)))


def _sb_isinst(eng, st, x, t):
    f = eng.reg.ufun("isinst_dyn", PyObj, PyObj, z3.BoolSort())
    return mk_bool(f(eng.to_obj(x), eng.to_obj(t)))


def _sb_seq1(eng, st, x, like=None):
    return SV(SEQ(x.ty), z3.Unit(S.enc(x)))


def _sb_asref(eng, st, x, c):
    return eng.coerce(x, REF(c.const))[0]


def _sb_subseq(eng, st, sq, a, b):
    aa, bb = eng.coerce(a, INT)[0].t, eng.coerce(b, INT)[0].t
    return SV(sq.ty, z3.SubSeq(sq.t, aa, bb - aa))


def _sb_empty_like(eng, st, sq):
    return SV(sq.ty, z3.Empty(S.sort_of(sq.ty)))


def _sb_map_empty(eng, st, m):
    return mk_bool(z3.Length(eng.map_keys(m)) == 0)


def _sb_bval(eng, st, x):
    return eng.coerce(x, BOOL)[0]


def _sb_allocated(eng, st, r):
    """the reference denotes an object allocated before now (not null)"""
    return mk_bool(z3.And(r.t > 0, r.t < eng.A0 + st.nalloc))


def _sb_inset(eng, st, x, st_):
    return mk_bool(z3.Select(st_.t, S.enc(eng.coerce(x, st_.ty.elem)[0])))


def _sb_unchanged_except(eng, st, x, *names):
    """every declared field of x (over the MRO of its static class) has its pre-state value, except the named ones"""
    excl = {n.const for n in names}
    old = eng.old_state
    conj = []
    seen = set()
    for cname in eng.table.mro(x.ty.cls):
        for fn, (ty, ghost) in eng.reg.fields.get(cname, {}).items():
            if fn in excl or fn in seen:
                continue
            seen.add(fn)
            key = "%s.%s" % (cname, fn)
            if key in getattr(eng.reg, "auto_keys", ()):
                continue
            cur = eng.heap_arr(st, key, ty)
            prev = old.heap.get(key)
            if prev is None:
                continue
            conj.append(z3.Select(cur, x.t) == z3.Select(prev, x.t))
    return mk_bool(z3.And(*conj) if conj else z3.BoolVal(True))


def _sb_heap_unchanged(eng, st, *excluded):
    """no field of any object that existed in the pre-state has changed (except the named heap keys)"""
    excl = {n.const for n in excluded}
    old = eng.old_state
    conj = []
    r = z3.Int("hu_r")
    for key, arr in st.heap.items():
        base = old.heap.get(key)
        if base is None or arr.eq(base) or key in excl or key in getattr(eng.reg, "auto_keys", ()):
            continue
        conj.append(z3.ForAll([r], z3.Implies(z3.And(0 < r, r < eng.A0), z3.Select(arr, r) == z3.Select(base, r))))
    return mk_bool(z3.And(*conj) if conj else z3.BoolVal(True))


def _sb_istuple(eng, st, x):
    o = eng.to_obj(x)
    kind = eng.reg.ufun("other_kind", z3.IntSort(), z3.IntSort())
    return mk_bool(z3.And(PyObj.is_O_other(o), kind(PyObj.oid(o)) == 3))


def _sb_tlen(eng, st, x):
    o = eng.to_obj(x)
    return SV(INT, eng.reg.ufun("other_len", z3.IntSort(), z3.IntSort())(PyObj.oid(o)))


def _sb_titem(eng, st, x, i):
    o = eng.to_obj(x)
    item = eng.reg.ufun("other_item", z3.IntSort(), z3.IntSort(), PyObj)
    return SV(OBJ, item(PyObj.oid(o), eng.coerce(i, INT)[0].t))


def _sb_pub(eng, st, et, content, ts):
    ty = TUP(REF("EventType"), OBJ, OBJ)
    items = [eng.coerce(et, REF("EventType"))[0], SV(OBJ, eng.to_obj(content)), SV(OBJ, eng.to_obj(ts))]
    return eng.pack(SV(ty, None, items=items))


SPEC_BUILTINS = {"typeis_builtin": _sb_typeis_builtin, "sametype": _sb_sametype, "isfresh": _sb_isfresh, "istuple": _sb_istuple, "tlen": _sb_tlen, "titem": _sb_titem, "heap_unchanged": _sb_heap_unchanged, "inset": _sb_inset, "unchanged_except": _sb_unchanged_except, "pub": _sb_pub, "allocated": _sb_allocated, "bval": _sb_bval, "isdict": _sb_isdict, "dlen": _sb_dlen, "dkeys": _sb_dkeys, "dhas": _sb_dhas, "dget": _sb_dget,
                 "isinst": _sb_isinst, "indexof": _sb_indexof, "mapeq": _sb_mapeq, "has": _sb_has, "get": _sb_get, "contains": _sb_contains, "nodup": _sb_nodup, "rm": _sb_rm,
                 "map_put": _sb_map_put, "map_del": _sb_map_del, "seq1": _sb_seq1, "asref": _sb_asref,
                 "subseq": _sb_subseq, "empty_like": _sb_empty_like, "map_empty": _sb_map_empty,
                 "isref": _sb_isref, "store": _sb_store, "ival": _sb_ival, "seq_empty_real": _sb_seq_empty_real, "powf": _sb_powf,
                 "isinf": _sb_isinf, "isnan": _sb_isnan, "isfin": _sb_isfin, "val": _sb_val, "same": _sb_same,
                 "isnum": _sb_isnum, "isint": _sb_isint, "isfloat": _sb_isfloat, "isstr": _sb_isstr,
                 "isbool": _sb_isbool, "isnone": _sb_isnone,
                 "num": _sb_num, "len": _sb_len, "sqrt": _sb_sqrt, "typeis": _sb_typeis,
                 "instance": _sb_instance, "keys": _sb_keys}


# ---------------------------------------------------------------------------- math helpers
def sqrt_term(eng, x):
    return eng.reg.ufun("sqrtf", z3.RealSort(), z3.RealSort())(x)


def assume_sqrt(st, x, r):
    st.assume(z3.Implies(x >= 0, z3.And(r >= 0, r * r == x)))


def math_call(eng, fname, s, args, node):
    """math.* on numerics.  Returns outcome list."""
    def numeric_arg(i=0):
        return args[i]

    def guard_numeric(v, cont):
        if v.ty.kind == "obj":
            return eng.implicit(s, "TypeError", z3.Not(eng.is_numeric_obj(v)), cont)
        if v.ty.kind not in NUMERIC:
            return eng.implicit(s, "TypeError", True, lambda s2: [])
        return cont(s)

    a = numeric_arg(0)
    if fname == "isnan":
        if a.ty.kind in ("int", "bool", "real"):
            return [(s, mk_bool(False))]
        return guard_numeric(a, lambda s2: [(s2, mk_bool(z3.simplify(XR.is_nan(S.to_xr(a)))))])
    if fname == "isinf":
        if a.ty.kind in ("int", "bool", "real"):
            return [(s, mk_bool(False))]
        x = S.to_xr(a)
        return guard_numeric(a, lambda s2: [(s2, mk_bool(z3.Or(XR.is_pinf(x), XR.is_ninf(x))))])
    if fname == "isfinite":
        if a.ty.kind in ("int", "bool", "real"):
            return [(s, mk_bool(True))]
        return guard_numeric(a, lambda s2: [(s2, mk_bool(XR.is_fin(S.to_xr(a))))])

    # functions on reals: handle xreal by case split (nan -> nan; inf -> per function opaque)
    def real_fun(v, domain_bad, mk, exc="ValueError"):
        """v numeric SV; domain_bad(x: Real)->Bool; mk(s2, x)->SV REAL"""
        if v.ty.kind == "xreal" or v.ty.kind == "obj":
            x = S.to_xr(v)

            def cont(s1):
                outs = []
                sf = s1.fork().assume(XR.is_fin(x))
                xv = XR.val(x)
                outs += eng.implicit(sf, exc, domain_bad(xv), lambda s3: [(s3, to_x(mk(s3, xv)))])
                sn = s1.fork().assume(z3.Not(XR.is_fin(x)))
                outs += special(sn, x)
                return outs
            return guard_numeric(v, cont)
        xv = eng.coerce(v, REAL)[0].t
        return eng.implicit(s, exc, domain_bad(xv), lambda s3: [(s3, mk(s3, xv))])

    def to_x(sv):
        return SV(XREAL, XR.fin(sv.t)) if sv.ty.kind == "real" else sv

    def special(sn, x):
        # nan -> nan (no exception); +-inf: function specific
        outs = []
        s_nan = sn.fork().assume(XR.is_nan(x))
        outs.append((s_nan, SV(XREAL, XR.nan)))
        s_inf = sn.fork().assume(z3.Not(XR.is_nan(x)))
        if fname in ("sqrt", "log"):
            sp = s_inf.fork().assume(XR.is_pinf(x))
            outs.append((sp, SV(XREAL, XR.pinf)))
            sm = s_inf.fork().assume(XR.is_ninf(x))
            sm.notes.append("math.%s(-inf)" % fname)
            outs.append((sm, Raise("ValueError", site="math.%s(-inf)" % fname, origin="implicit")))
        elif fname == "exp":
            sp = s_inf.fork().assume(XR.is_pinf(x))
            outs.append((sp, SV(XREAL, XR.pinf)))
            sm = s_inf.fork().assume(XR.is_ninf(x))
            outs.append((sm, SV(XREAL, XR.fin(z3.RealVal(0)))))
        else:
            outs.append((s_inf, SV(XREAL, S.fresh("m_" + fname, XR))))
        return outs

    if fname == "sqrt":
        def mk(s3, x):
            r = sqrt_term(eng, x)
            assume_sqrt(s3, x, r)
            return SV(REAL, r)
        return real_fun(a, lambda x: x < 0, mk)
    if fname == "log":
        lf = eng.reg.ufun("logf", z3.RealSort(), z3.RealSort())
        if len(args) == 2:
            raise Unsupported("log with base")

        def mk(s3, x):
            r = lf(x)
            s3.assume(z3.Implies(x > 0, z3.And(z3.Implies(x < 1, r < 0), z3.Implies(x > 1, r > 0),
                                               z3.Implies(x == 1, r == 0))))
            return SV(REAL, r)
        return real_fun(a, lambda x: x <= 0, mk)
    if fname == "exp":
        ef = eng.reg.ufun("expf", z3.RealSort(), z3.RealSort())

        def mk(s3, x):
            r = ef(x)
            s3.assume(z3.And(r > 0, z3.Implies(x > 0, r > 1), z3.Implies(x < 0, r < 1), z3.Implies(x == 0, r == 1)))
            return SV(REAL, r)
        return real_fun(a, lambda x: z3.BoolVal(False), mk)
    if fname == "floor" or fname == "ceil":
        def mk(s3, x):
            fl = z3.ToInt(x)
            if fname == "ceil":
                fl = -z3.ToInt(-x)
            return SV(INT, fl)
        if a.ty.kind in ("xreal", "obj"):
            x = S.to_xr(a)
            return eng.implicit(s, "ValueError", z3.Not(XR.is_fin(x)), lambda s2: [(s2, mk(s2, XR.val(x)))])
        return [(s, mk(s, eng.coerce(a, REAL)[0].t))]
    if fname == "pow":
        b = args[1]
        outs = []
        for s2, v in eng.arith(ast.Pow(), SV(REAL, eng.coerce(a, REAL)[0].t), SV(REAL, eng.coerce(b, REAL)[0].t, const=b.const), s):
            if isinstance(v, Raise) and v.cls in ("ComplexResult", "ZeroDivisionError"):
                v = Raise("ValueError", site=v.site, origin="implicit")    # math.pow raises ValueError
            outs.append((s2, v))
        return outs
    if fname == "fabs":
        x = eng.coerce(a, REAL)[0].t
        return [(s, SV(REAL, z3.If(x >= 0, x, -x)))]
    if fname in ("sin", "cos", "tan", "atan", "erf", "erfc", "lgamma", "gamma", "tanh", "asin", "acos"):
        f = eng.reg.ufun("m_" + fname, z3.RealSort(), z3.RealSort())

        def mk(s3, x):
            r = f(x)
            if fname in ("sin", "cos", "erf", "tanh"):
                s3.assume(z3.And(r >= -1, r <= 1))
            if fname == "erfc":
                s3.assume(z3.And(r >= 0, r <= 2))
            if fname == "gamma":
                s3.assume(z3.Implies(x > 0, r > 0))
            return SV(REAL, r)
        bad = (lambda x: z3.And(x <= 0, z3.IsInt(x))) if fname in ("lgamma", "gamma") else (lambda x: z3.BoolVal(False))
        return real_fun(a, bad, mk)
    if fname in ("comb", "factorial"):
        f = eng.reg.ufun("m_" + fname, *([z3.IntSort()] * (len(args) + 1)))
        xs = [eng.coerce(v, INT)[0].t for v in args]
        r = f(*xs)
        s.assume(r >= 0)
        if fname == "factorial":
            s.assume(r >= 1)
        bad = z3.Or(*[x < 0 for x in xs])
        return eng.implicit(s, "ValueError", bad, lambda s2: [(s2, SV(INT, r))])
    raise Unsupported("math.%s" % fname)


# ---------------------------------------------------------------------------- builtins
def b_float(eng, s, a, k, node):
    if not a:
        return [(s, mk_real(0.0))]
    v = a[0]
    kd = v.ty.kind
    if kd in ("int", "bool"):
        return [(s, SV(REAL, S.xval(S.to_xr(v))))]
    if kd in ("real", "xreal"):
        return [(s, v)]
    if kd == "obj" and "Quantity" in eng.table.classes and eng.reg.specfuns.get("quantity_float"):
        for cname in ("Quantity", "SI"):
            if cname not in eng.table.classes:
                continue
            goal = z3.And(PyObj.is_O_ref(v.t), eng.isinstance_ref(PyObj.rval(v.t), cname))
            if eng.prover.quick(s.pc, goal) == "proved" or \
                    eng.prover.check(s.pc, goal, want_model=False, timeout_ms=2000, cli=False)[0] == "proved":
                return [(s, eng.reg.specfuns["quantity_float"](eng, SV(REF(cname), PyObj.rval(v.t)), s))]
    if kd == "obj":
        return eng.implicit(s, "TypeError", z3.Not(z3.Or(eng.is_numeric_obj(v), PyObj.is_O_str(v.t))),
                            lambda s2: eng.implicit(s2, "ValueError", PyObj.is_O_str(v.t),
                                                    lambda s3: [(s3, SV(XREAL, S.to_xr(v)))]))
    if kd == "ref" and (eng.table.is_subclass(v.ty.cls, "Quantity") or v.ty.cls == "SI"):
        fn = eng.reg.specfuns.get("quantity_float")
        if fn:
            return [(s, fn(eng, v, s))]
    raise Unsupported("float(%r)" % (v.ty,))


def b_int(eng, s, a, k, node):
    v = a[0]
    kd = v.ty.kind
    if kd in ("int", "bool"):
        return [(s, eng.coerce(v, INT)[0])]
    if kd == "real":
        # truncation toward zero
        x = v.t
        return [(s, SV(INT, z3.If(x >= 0, z3.ToInt(x), -z3.ToInt(-x))))]
    if kd == "xreal":
        x = XR.val(v.t)
        return eng.implicit(s, "ValueError", z3.Not(XR.is_fin(v.t)),
                            lambda s2: [(s2, SV(INT, z3.If(x >= 0, z3.ToInt(x), -z3.ToInt(-x))))])
    raise Unsupported("int(%r)" % (v.ty,))


def b_bool(eng, s, a, k, node):
    return [(s, mk_bool(eng.truth(a[0])))]


def b_len(eng, s, a, k, node):
    v = a[0]
    if v.ty.kind in ("seq", "str"):
        return [(s, SV(INT, z3.Length(v.t)))]
    if v.ty.kind == "map":
        return [(s, SV(INT, z3.Length(eng.map_keys(v))))]
    if v.ty.kind == "tup":
        return [(s, mk_int(len(v.ty.elems)))]
    if v.ty.kind in ("emptylist", "emptydict"):
        return [(s, mk_int(0))]
    if v.ty.kind == "obj":
        # len of a dynamic object: defined for 'other' (dict/list/tuple) and str
        ln = eng.reg.ufun("other_len", z3.IntSort(), z3.IntSort())
        o = v.t
        r = z3.If(PyObj.is_O_str(o), z3.Length(PyObj.sval(o)), ln(PyObj.oid(o)))
        s.assume(z3.Implies(PyObj.is_O_other(o), ln(PyObj.oid(o)) >= 0))
        s.assume(z3.Implies(is_dyn_dict(eng, o), dyn_dict_wf(eng, o)))
        return eng.implicit(s, "TypeError", z3.Not(z3.Or(PyObj.is_O_str(o), PyObj.is_O_other(o))),
                            lambda s2: [(s2, SV(INT, r))])
    raise Unsupported("len(%r)" % (v.ty,))


def b_minmax(which):
    def f(eng, s, a, k, node):
        if len(a) != 2:
            raise Unsupported("min/max with %d args" % len(a))
        x, y = a
        if x.ty.kind not in NUMERIC or y.ty.kind not in NUMERIC:
            raise Unsupported("min/max on %r,%r" % (x.ty, y.ty))
        # python: max(a,b) returns b if b > a else a ; min(a,b) returns b if b < a else a
        op = ast.Gt() if which == "max" else ast.Lt()
        c = eng.num_order(op, y, x)
        ux, uy = eng.unify(x, y)
        return [(s, SV(ux.ty, z3.simplify(z3.If(c, uy.t, ux.t))))]
    return f


def b_abs(eng, s, a, k, node):
    v = a[0]
    kd = v.ty.kind
    if kd in ("int", "bool"):
        x = eng.coerce(v, INT)[0].t
        return [(s, SV(INT, z3.If(x >= 0, x, -x)))]
    if kd == "real":
        return [(s, SV(REAL, z3.If(v.t >= 0, v.t, -v.t)))]
    if kd == "xreal":
        x = v.t
        return [(s, SV(XREAL, z3.If(XR.is_fin(x), XR.fin(z3.If(XR.val(x) >= 0, XR.val(x), -XR.val(x))),
                                    z3.If(XR.is_nan(x), XR.nan, XR.pinf))))]
    if kd == "ref":
        return eng.dunder_call(v, "__abs__", [], s)
    raise Unsupported("abs(%r)" % (v.ty,))


def b_str(eng, s, a, k, node):
    if not a:
        return [(s, mk_str(""))]
    v = a[0]
    if v.ty.kind == "str":
        return [(s, v)]
    if v.const is not None and isinstance(v.const, (int, float)) and not isinstance(v.const, bool):
        return [(s, mk_str(str(v.const)))]
    if v.ty.kind == "ref":
        f = eng.table.resolve(v.ty.cls, "__str__")
        if f is not None and (f.qual in eng.reg.contracts):
            return eng.call_function(f, v, [], {}, s, recv_static=v.ty.cls)
    srt = S.sort_of(v.ty) if v.ty.kind not in ("tup", "emptylist", "emptydict") else None
    if srt is None:
        return [(s, SV(STR, S.fresh("str", z3.StringSort())))]
    f = eng.reg.ufun("str_of_%s" % v.ty.kind, srt, z3.StringSort())
    return [(s, SV(STR, f(v.t)))]


def b_list(eng, s, a, k, node):
    if not a:
        return [(s, SV(Ty("emptylist"), None, const="fresh"))]
    v = a[0]
    if v.ty.kind == "seq":
        return [(s, SV(v.ty, v.t, const="fresh"))]
    if v.ty.kind == "map":
        return [(s, SV(SEQ(v.ty.key), eng.map_keys(v), const="fresh"))]
    raise Unsupported("list(%r)" % (v.ty,))


def b_dict(eng, s, a, k, node):
    if not a:
        return [(s, SV(Ty("emptydict"), None, const="fresh"))]
    v = a[0]
    if v.ty.kind == "map":
        return [(s, SV(v.ty, v.t, const="fresh"))]
    if v.ty.kind == "obj":
        # dict(d) of a dict is a copy with the same content; of anything else it raises
        # (TypeError for non-iterables, ValueError for malformed sequences): modelled as TypeError
        return eng.implicit(s, "TypeError", z3.Not(is_dyn_dict(eng, v.t)), lambda s2: [(s2, v)])
    raise Unsupported("dict(%r)" % (v.ty,))


def b_hasattr(eng, s, a, k, node):
    v, name = a
    if v.ty.kind == "ref" and isinstance(name.const, str):
        if eng.field_decl(v.ty.cls, name.const) is not None or eng.table.resolve(v.ty.cls, name.const):
            # the attribute exists once __init__ of the declaring class ran: modelled by a ghost
            fn = eng.reg.specfuns.get("hasattr_" + name.const)
            if fn:
                return [(s, fn(eng, v))]
            return [(s, mk_bool(True))]
    if v.ty.kind in ("obj", "ref") and isinstance(name.const, str):
        fn = eng.reg.specfuns.get("hasattr_" + name.const)
        if fn:
            return [(s, fn(eng, v))]
    raise Unsupported("hasattr")


def b_type(eng, s, a, k, node):
    v = a[0]
    if v.ty.kind == "ref":
        return [(s, SV(Ty("type"), S.typeof(v.t)))]
    if v.ty.kind == "type":
        return [(s, SV(Ty("type"), z3.IntVal(-7)))]      # the class of class objects
    fn = eng.reg.specfuns.get("type_of_value")
    if fn:
        return [(s, fn(eng, v))]
    raise Unsupported("type(%r)" % (v.ty,))


def b_hash(eng, s, a, k, node):
    v = eng.refine_obj(a[0], s)
    if v.ty.kind == "str":
        eng.effects_used.add("hash(str): process-varying")
        return [(s, SV(INT, eng.reg.ufun("hash_str_PROCESS", z3.StringSort(), z3.IntSort())(v.t)))]
    if v.ty.kind == "int":
        return [(s, v)]
    raise Unsupported("hash(%r)" % (v.ty,))


def b_round(eng, s, a, k, node):
    v = a[0]
    if v.ty.kind == "real" and len(a) == 1:
        r = S.fresh("round", z3.IntSort())
        s.assume(z3.And(z3.ToReal(r) - v.t <= 0.5, v.t - z3.ToReal(r) <= 0.5))
        return [(s, SV(INT, r))]
    raise Unsupported("round")


def b_ord(eng, s, a, k, node):
    v = a[0]
    if v.ty.kind != "str":
        raise Unsupported("ord(%r)" % (v.ty,))
    f = eng.reg.ufun("ord_chr", z3.StringSort(), z3.IntSort())
    r = f(v.t)
    s.assume(z3.And(r >= 0, r <= 1114111))
    return eng.implicit(s, "TypeError", z3.Length(v.t) != 1, lambda s2: [(s2, SV(INT, r))])


BUILTINS = {"ord": b_ord, "float": b_float, "int": b_int, "bool": b_bool, "len": b_len, "max": b_minmax("max"),
            "min": b_minmax("min"), "abs": b_abs, "str": b_str, "list": b_list, "dict": b_dict,
            "hasattr": b_hasattr, "type": b_type, "hash": b_hash, "round": b_round, "repr": b_str}


# ---------------------------------------------------------------------------- attribute calls
def call_attr(eng, node, fn, st):
    # module functions
    if isinstance(fn.value, ast.Name) and fn.value.id not in st.env:
        mod = fn.value.id
        if (mod, fn.attr) in SKIP_CALLS:
            eng.dropped["log/print"] += 1
            return with_args(eng, node, st, lambda s, a, k: [(s, mk_none())])
        if mod == "math":
            return with_args(eng, node, st, lambda s, a, k: math_call(eng, fn.attr, s, a, node))
        if mod == "heapq":
            return heapq_call(eng, node, fn.attr, st)
        if mod == "time" and fn.attr == "time":
            eng.effects_used.add("time.time(): wall clock")
            return [(st, SV(REAL, S.fresh("walltime", z3.RealSort())))]
        if mod == "sys" and fn.attr == "exit":
            return [(st, Raise("SystemExit", origin="explicit"))]
        if mod in eng.table.classes:
            # Class.method(...) : classmethod/staticmethod or explicit base call Base.__init__(self, ...)
            f = eng.table.resolve(mod, fn.attr)
            if f is None:
                raise Unsupported("%s.%s" % (mod, fn.attr))

            def go(s, a, k):
                if f.is_classmethod or f.is_staticmethod:
                    return call_function(eng, f, None, a, k, s, mod, False)
                recv = a[0]
                return call_function(eng, f, recv, a[1:], k, s, mod, True, exact=True)
            return with_args(eng, node, st, go)
        hook = eng.reg.specfuns.get("modcall_%s_%s" % (mod, fn.attr))
        if hook:
            return with_args(eng, node, st, lambda s, a, k: hook(eng, s, a, k))
    # super().m(...)
    if isinstance(fn.value, ast.Call) and isinstance(fn.value.func, ast.Name) and fn.value.func.id == "super" \
            and fn.attr == "__new__" and "self" not in st.env and eng.reg.specfuns.get("super_new"):
        return with_args(eng, node, st, lambda s, a, k: eng.reg.specfuns["super_new"](eng, s, a, k))
    if isinstance(fn.value, ast.Call) and isinstance(fn.value.func, ast.Name) and fn.value.func.id == "super":
        recv = st.env["self"]
        f = eng.table.resolve(eng.self_class or recv.ty.cls, fn.attr, after=eng.cur_class)
        if f is None:
            if fn.attr == "__init__":
                return with_args(eng, node, st, lambda s, a, k: [(s, mk_none())])     # object.__init__
            raise Unsupported("super().%s not found" % fn.attr)
        return with_args(eng, node, st, lambda s, a, k: call_function(eng, f, recv, a, k, s, None, True))
    # method on a value: need lvalue for mutating container methods
    recv_is_container_path = False
    outs = []
    for s, lv in lvalue_or_value(eng, fn.value, st):
        if isinstance(lv, Raise):
            outs.append((s, lv))
            continue
        for s2, ak in eval_args(eng, node, s):
            if isinstance(ak, Raise):
                outs.append((s2, ak))
                continue
            outs += method_call(eng, lv, fn.attr, ak[0], ak[1], s2, node)
    return outs


def lvalue_or_value(eng, node, st):
    try:
        if isinstance(node, (ast.Name, ast.Attribute, ast.Subscript)) or \
                (isinstance(node, ast.Call) and isinstance(node.func, ast.Attribute) and not node.args and not node.keywords):
            if isinstance(node, ast.Name) and node.id not in st.env:
                raise Unsupported("x")
            return lvalue(eng, node, st)
    except Unsupported:
        pass
    return [(s, v if isinstance(v, Raise) else ValueLV(v)) for s, v in eng.ev(node, st)]


class AliasLV:
    """A local bound to a container that lives in the heap (``lst = self._listeners[t]``), not modified since: reads go to the
    local, a mutation goes to the place the local was read from and refreshes the local."""
    def __init__(self, name, origin, key, node):
        self.name, self.origin, self.key, self.node = name, origin, key, node

    def get(self, eng, st):
        return st.env[self.name]

    def set(self, eng, st, sv):
        self.origin.set(eng, st, sv)
        st.env[self.name] = SV(sv.ty, sv.t, const=("heapalias", self.key, st.heap[self.key], self.node))

    def owned(self, eng, st):
        return self.origin.owned(eng, st)


def alias_lvalue(eng, lv, s):
    """NameLV of a heap alias whose origin still denotes the very same value -> AliasLV; otherwise lv unchanged."""
    if not isinstance(lv, NameLV):
        return lv
    v = s.env.get(lv.name)
    org = getattr(v, "const", None)
    if not (isinstance(org, tuple) and len(org) == 4 and org[0] == "heapalias"):
        return lv
    _, key, arr, node = org
    if key not in s.heap or not s.heap[key].eq(arr):
        return lv
    try:
        outs = lvalue(eng, node, s.fork())
        if len(outs) != 1 or isinstance(outs[0][1], Raise):
            return lv
        cur = outs[0][1].get(eng, s.fork())
    except (Unsupported, KeyError):
        return lv
    if cur.ty.kind != v.ty.kind or not z3.simplify(cur.t).eq(z3.simplify(v.t)):
        return lv
    return AliasLV(lv.name, outs[0][1], key, node)


def method_call(eng, lv, name, args, kwargs, s, node):
    if not eng.spec:
        lv = alias_lvalue(eng, lv, s)
    try:
        recv = lv.get(eng, s)
    except KeyError:
        raise Unsupported("unbound receiver")
    if isinstance(lv, SubLV) and not eng.spec:
        # evaluating d[k] as receiver can raise KeyError
        base = lv.parent.get(eng, s)
        if base.ty.kind == "map":
            key = eng.coerce(lv.key, base.ty.key)[0]
            return eng.implicit(s, "KeyError", z3.Not(eng.map_has(base, key)),
                                lambda s2: method_call2(eng, lv, lv.get(eng, s2), name, args, kwargs, s2, node))
    return method_call2(eng, lv, recv, name, args, kwargs, s, node)


def method_call2(eng, lv, recv, name, args, kwargs, s, node):
    k = recv.ty.kind
    if k == "ref":
        if recv.ty.nullable:
            nn = SV(REF(recv.ty.cls), recv.t)
            return eng.implicit(s, "AttributeError", recv.t == 0,
                                lambda s2: method_call2(eng, lv, nn, name, args, kwargs, s2, node))
        # callable stored in a field (e.g. self._method(**kwargs))
        if eng.field_decl(recv.ty.cls, name) is not None:
            hook = eng.reg.specfuns.get("call_field_%s" % name)
            if hook:
                return hook(eng, s, recv, args, kwargs)
            raise Unsupported("call of field %s" % name)
        dep = eng.reg.specfuns.get("dep_%s_%s" % (recv.ty.cls, name))
        if dep:
            return dep(eng, s, recv, args, kwargs)
        static = recv.ty.cls
        # dynamic dispatch: self -> exact class; others -> contract of the static class
        if "self" in s.env and recv.t.eq(s.env["self"].t) and eng.self_class:
            f = eng.table.resolve(eng.self_class, name)
        else:
            f = eng.table.resolve(static, name)
        if f is None and not eng.spec and static in eng.table.classes:
            # the method exists only in a subclass: usable when the path condition proves the
            # receiver to be an instance of it (e.g. after an isinstance test)
            subs = [c for c in eng.table.subclasses(static) if eng.table.resolve(c, name) is not None]
            subs.sort(key=lambda c: len(eng.table.mro(c)))
            for c in subs:
                stt, _, _, _, _ = eng.prover.check(s.pc, eng.isinstance_ref(recv.t, c), want_model=False, timeout_ms=1500)
                if stt == "proved":
                    return method_call2(eng, lv, SV(REF(c), recv.t), name, args, kwargs, s, node)
        if f is None:
            raise Unsupported("method %s.%s not found" % (static, name))
        is_self = "self" in s.env and recv.t.eq(s.env["self"].t) and eng.self_class
        if not is_self:
            return dispatch(eng, static, name, recv, s,
                            lambda fn, rv, s2: call_function(eng, fn, rv, args, kwargs, s2, rv.ty.cls, False))
        return call_function(eng, f, recv, args, kwargs, s, static, False)
    if k == "type":
        hook = eng.reg.specfuns.get("typemethod_" + name)
        if hook:
            return hook(eng, s, recv, args, kwargs)
        raise Unsupported("method %s on a class object" % name)
    if k == "optseq":
        # Optional[list] (result of dict.get): a method call on None raises AttributeError
        has = recv.items[0]
        asseq = SV(SEQ(recv.ty.elem), recv.t)
        return eng.implicit(s, "AttributeError", z3.Not(has),
                            lambda s2: seq_method(eng, ValueLV(asseq), asseq, name, args, s2))
    if k == "set":
        if name == "add":
            need_owned(eng, lv, s, "set.add")
            v, c = eng.coerce(args[0], recv.ty.elem)
            if c is not None:
                eng.oblige("type.set-elem", "type", s, c)
            lv.set(eng, s, SV(recv.ty, z3.Store(recv.t, S.enc(v), z3.BoolVal(True)), const=recv.const))
            return [(s, mk_none())]
        raise Unsupported("set.%s" % name)
    if k == "seq" or k == "emptylist":
        return seq_method(eng, lv, recv, name, args, s)
    if k == "map" or k == "emptydict":
        return map_method(eng, lv, recv, name, args, s)
    if k == "str":
        return str_method(eng, recv, name, args, s)
    if k == "obj" and not eng.spec:
        r = eng.refine_to_ref(recv, name, s)
        if r is not None:
            return method_call2(eng, ValueLV(r), r, name, args, kwargs, s, node)
    if k == "obj" and name in ("keys", "get"):
        o = recv.t
        f = dyn_dict_funs(eng)

        def cont(s2):
            s2.assume(dyn_dict_wf(eng, o))
            i = PyObj.oid(o)
            if name == "keys":
                return [(s2, SV(SEQ(OBJ), f["keys"](i), const=("view",)))]
            key = eng.to_obj(args[0])
            d = eng.to_obj(args[1]) if len(args) > 1 else PyObj.O_none
            return [(s2, SV(OBJ, z3.If(f["has"](i, key), f["get"](i, key), d)))]
        return eng.implicit(s, "AttributeError", z3.Not(is_dyn_dict(eng, o)), cont)
    if k == "exc" or k == "obj":
        hook = eng.reg.specfuns.get("objmethod_" + name)
        if hook:
            return hook(eng, s, recv, args, kwargs)
    raise Unsupported("method %s on %r" % (name, recv.ty))


def dispatch(eng, static, name, recv, s, cont):
    """Closed-world dynamic dispatch on a receiver other than self: the concrete subclasses of
    the static class are grouped by the function ``name`` resolves to; one path per group, with
    the receiver's dynamic class constrained to the group and the receiver retyped."""
    f0 = eng.table.resolve(static, name)
    if static not in eng.table.classes:
        return cont(f0, recv, s)
    c0 = eng.reg.contracts.get(f0.qual) if f0 is not None else None
    if c0 is not None and c0.abstract:
        # an interface contract (open world: user classes may implement it): no case split
        return cont(f0, recv, s)
    groups = {}
    for c in eng.table.subclasses(static):
        if eng.is_abstract(c) and any(not eng.is_abstract(x) for x in eng.table.subclasses(static)):
            continue
        f = eng.table.resolve(c, name)
        if f is None:
            continue
        # trivial getters with the same text reading the same declared field are one group
        key = f.qual
        if is_trivial(f):
            fld = None
            b = f.body[0]
            if isinstance(b, ast.Return) and isinstance(b.value, ast.Attribute):
                fld = eng.field_key(c, b.value.attr)
            key = ("trivial", ast.dump(b), fld)
        groups.setdefault(key, []).append((c, f))
    # an abstract method body is never the one that runs: user classes must override it, and within the
    # closed world the overriding definitions of the table stand for them
    concrete = {k: m for k, m in groups.items() if not m[0][1].is_abstract}
    if concrete and len(concrete) < len(groups):
        groups = concrete
    if len(groups) == 1:
        members = list(groups.values())[0]
        classes = sorted([c for c, _ in members], key=lambda c: len(eng.table.mro(c)))
        if static in classes or not eng.is_abstract(static):
            return cont(eng.table.resolve(static, name), recv, s)
        return cont(members[0][1], SV(REF(classes[0]), recv.t), s)
    if not groups:
        return cont(eng.table.resolve(static, name), recv, s)
    outs = []
    for key, members in groups.items():
        classes = [c for c, _ in members]
        cond = z3.Or(*[S.typeof(recv.t) == eng.class_id(c) for c in classes])
        s2 = s.fork().assume(cond)
        if not eng.feasible(s2):
            continue
        # retype the receiver to the most general class of the group
        classes.sort(key=lambda c: len(eng.table.mro(c)))
        rv = SV(REF(classes[0]), recv.t)
        outs += cont(members[0][1] if len({f.qual for _, f in members}) == 1 else eng.table.resolve(classes[0], name), rv, s2)
    return outs


def need_owned(eng, lv, s, what):
    if not lv.owned(eng, s):
        raise Unsupported("%s through a non-owned alias" % what)


def seq_method(eng, lv, recv, name, args, s):
    if recv.ty.kind == "emptylist":
        if name == "append":
            v = eng.pack(args[0])
            lv.set(eng, s, SV(SEQ(v.ty), z3.Unit(S.enc(v)), const="fresh"))
            return [(s, mk_none())]
        raise Unsupported("method %s on empty list literal" % name)
    et = recv.ty.elem
    if name == "append":
        need_owned(eng, lv, s, "append")
        v, c = eng.coerce(args[0], et)
        eng.pack(v)
        if c is not None:
            eng.oblige("type.elem", "type", s, c)
        lv.set(eng, s, SV(recv.ty, z3.Concat(recv.t, z3.Unit(S.enc(v))), const=recv.const))
        return [(s, mk_none())]
    if name == "insert":
        need_owned(eng, lv, s, "insert")
        i = eng.coerce(args[0], INT)[0].t
        v, c = eng.coerce(args[1], et)
        eng.pack(v)
        n = z3.Length(recv.t)
        j = z3.If(i < 0, z3.If(i + n < 0, 0, i + n), z3.If(i > n, n, i))
        new = z3.Concat(z3.SubSeq(recv.t, 0, j), z3.Unit(S.enc(v)), z3.SubSeq(recv.t, j, n - j))
        lv.set(eng, s, SV(recv.ty, new, const=recv.const))
        return [(s, mk_none())]
    if name == "copy":
        return [(s, SV(recv.ty, recv.t, const="fresh"))]
    if name == "clear":
        need_owned(eng, lv, s, "clear")
        lv.set(eng, s, SV(recv.ty, z3.Empty(S.sort_of(recv.ty)), const=recv.const))
        return [(s, mk_none())]
    if name == "count":
        v, c = eng.coerce(args[0], et)
        eng.pack(v)
        cnt = eng.reg.ufun("seq_count_%s" % S.sort_of(recv.ty).name().replace(" ", "_").replace("(", "").replace(")", ""),
                           S.sort_of(recv.ty), S.sort_of(et), z3.IntSort())
        r = cnt(recv.t, v.t)
        # dependency contract of list.count: non-negative, positive iff element present
        s.assume(r >= 0)
        s.assume((r > 0) == seq_member(eng, recv, v))
        return [(s, SV(INT, r))]
    if name == "remove":
        need_owned(eng, lv, s, "remove")
        v, c = eng.coerce(args[0], et)
        eng.pack(v)
        present = seq_member(eng, recv, v)

        def cont(s2):
            new = seq_remove_first(eng, recv, v)
            lv.set(eng, s2, SV(recv.ty, new, const=recv.const))
            return [(s2, mk_none())]
        return eng.implicit(s, "ValueError", z3.Not(present), cont)
    if name == "index":
        v, c = eng.coerce(args[0], et)
        eng.pack(v)
        present = z3.Contains(recv.t, z3.Unit(S.enc(v)))
        return eng.implicit(s, "ValueError", z3.Not(present),
                            lambda s2: [(s2, SV(INT, z3.IndexOf(recv.t, z3.Unit(S.enc(v)), 0)))])
    if name == "pop" and not args:
        need_owned(eng, lv, s, "pop")
        n = z3.Length(recv.t)

        def cont(s2):
            e = eng.seq_elem(s2, recv, n - 1)
            lv.set(eng, s2, SV(recv.ty, z3.SubSeq(recv.t, 0, n - 1), const=recv.const))
            return [(s2, e)]
        return eng.implicit(s, "IndexError", n == 0, cont)
    raise Unsupported("list.%s" % name)


def seq_member(eng, seq, v):
    """Membership test on a sequence value.  For tuple elements a sidecar may supply an
    uninterpreted membership predicate (more robust for quantifier instantiation than the
    interpreted seq.contains)."""
    if seq.ty.elem.kind == "tup" and "seq_member_tup" in eng.reg.specfuns:
        return eng.reg.specfuns["seq_member_tup"](eng, seq, v)
    return z3.Contains(seq.t, z3.Unit(S.enc(v)))


def seq_remove_first(eng, seq, v):
    """list.remove: delete the first element equal to v (shifting the rest).  For sequences of
    references the term is wrapped in the named function rm_ref (defined by an axiom in the
    'seqref' axiom set) so that the sequence lemmas of that set can be instantiated."""
    if seq.ty.elem.kind in ("ref", "str"):
        f = eng.reg.ufun("rm_ref", z3.SeqSort(z3.IntSort()), z3.IntSort(), z3.SeqSort(z3.IntSort()))
        return f(seq.t, S.enc(v))
    if seq.ty.elem.kind == "tup" and "seq_remove_first_tup" in eng.reg.specfuns:
        return eng.reg.specfuns["seq_remove_first_tup"](eng, seq, v)
    i = z3.IndexOf(seq.t, z3.Unit(S.enc(v)), 0)
    n = z3.Length(seq.t)
    return z3.If(z3.Contains(seq.t, z3.Unit(S.enc(v))),
                 z3.Concat(z3.SubSeq(seq.t, 0, i), z3.SubSeq(seq.t, i + 1, n - i - 1)), seq.t)


def map_method(eng, lv, recv, name, args, s):
    if recv.ty.kind == "emptydict":
        raise Unsupported("method %s on empty dict literal" % name)
    kt, vt = recv.ty.key, recv.ty.elem
    if name == "get":
        k, c = eng.coerce(args[0], kt)
        has = eng.map_has(recv, k)
        if c is not None:
            has = z3.And(c, has)
        val = eng.map_elem(s, recv, k)
        if len(args) > 1:
            d = args[1]
        else:
            d = mk_none()
        if d.ty.kind == "none" and vt.kind == "ref":
            ty = REF(vt.cls, True)
            return [(s, SV(ty, z3.If(has, val.t, 0)))]
        if d.ty.kind == "none" and vt.kind == "seq":
            # Optional[seq]: model as obj-like pair -> use a nullable wrapper type
            ty = Ty("optseq", elem=vt.elem)
            return [(s, SV(ty, val.t, items=[has]))]
        a, b = eng.unify(val, d)
        return [(s, SV(a.ty, z3.If(has, a.t, b.t)))]
    if name == "keys":
        return [(s, SV(SEQ(kt), eng.map_keys(recv), const=("view",)))]
    if name == "values":
        fn = eng.reg.specfuns.get("map_values")
        if fn:
            return [(s, fn(eng, recv))]
        raise Unsupported("dict.values")
    if name == "clear":
        need_owned(eng, lv, s, "clear")
        lv.set(eng, s, eng.map_mk(recv.ty, z3.Empty(z3.SeqSort(S.elem_sort(kt))), eng.map_vals(recv)))
        return [(s, mk_none())]
    if name == "copy":
        return [(s, SV(recv.ty, recv.t, const="fresh"))]
    if name == "pop":
        need_owned(eng, lv, s, "pop")
        k, c = eng.coerce(args[0], kt)
        has = eng.map_has(recv, k)

        def cont(s2):
            val = eng.map_elem(s2, recv, k)
            lv.set(eng, s2, map_delete(eng, recv, k))
            return [(s2, val)]
        if len(args) > 1:
            raise Unsupported("dict.pop with default")
        return eng.implicit(s, "KeyError", z3.Not(has), cont)
    raise Unsupported("dict.%s" % name)


def map_delete(eng, m, k):
    keys = eng.map_keys(m)
    nk = seq_remove_first(eng, SV(SEQ(m.ty.key), keys), k)
    return eng.map_mk(m.ty, nk, eng.map_vals(m))


def str_method(eng, recv, name, args, s):
    if name == "startswith":
        return [(s, mk_bool(z3.PrefixOf(args[0].t, recv.t)))]
    if name == "endswith":
        return [(s, mk_bool(z3.SuffixOf(args[0].t, recv.t)))]
    if name == "find":
        return [(s, SV(INT, z3.IndexOf(recv.t, args[0].t, 0)))]
    if name == "rfind":
        return [(s, SV(INT, z3.LastIndexOf(recv.t, args[0].t)))]
    if name == "strip" or name == "lower" or name == "upper":
        f = eng.reg.ufun("str_" + name, z3.StringSort(), z3.StringSort())
        return [(s, SV(STR, f(recv.t)))]
    hook = eng.reg.specfuns.get("strmethod_" + name)
    if hook:
        return hook(eng, s, recv, args)
    raise Unsupported("str.%s" % name)


def heapq_call(eng, node, fname, st):
    hook = eng.reg.specfuns.get("heapq_" + fname)
    if hook is None:
        raise Unsupported("heapq.%s (no dependency contract loaded)" % fname)
    outs = []
    for s, lv in lvalue(eng, node.args[0], st):
        if isinstance(lv, Raise):
            outs.append((s, lv))
            continue
        for s2, vals in eng.ev_seq(node.args[1:], s):
            if isinstance(vals, Raise):
                outs.append((s2, vals))
            else:
                outs += hook(eng, s2, lv, vals)
    return outs


# ---------------------------------------------------------------------------- user functions
def bind_params(eng, f, recv, args, kwargs, st, c=None):
    """-> env dict for the callee (params bound, defaults filled)."""
    a = f.node.args
    names = [x.arg for x in a.args]
    env = {}
    if recv is not None and names and not f.is_staticmethod:
        env[names[0]] = recv
        names = names[1:]
    elif f.is_classmethod and names:
        names = names[1:]
    defaults = list(a.defaults)
    dmap = {}
    allnames = [x.arg for x in a.args]
    for n, d in zip(allnames[len(allnames) - len(defaults):], defaults):
        dmap[n] = d
    for n, d in zip([x.arg for x in a.kwonlyargs], a.kw_defaults):
        if d is not None:
            dmap[n] = d
    names += [x.arg for x in a.kwonlyargs]
    kwargs = dict(kwargs)
    extra = kwargs.pop("**", None)
    for i, n in enumerate(names):
        if i < len(args):
            env[n] = args[i]
        elif n in kwargs:
            env[n] = kwargs.pop(n)
        elif n in dmap:
            outs = eng.ev(dmap[n], st)
            env[n] = outs[0][1]
        else:
            raise Unsupported("missing argument %s for %s" % (n, f.qual))
    if len(args) > len(names):
        raise Unsupported("too many arguments for %s" % f.qual)
    if a.kwarg is not None:
        # **kwargs of the callee: opaque bundle
        if extra is not None and not kwargs:
            env[a.kwarg.arg] = extra
        else:
            env[a.kwarg.arg] = SV(Ty("kwargs"), S.fresh("kwargs", z3.IntSort()),
                                  items=dict(kwargs) if kwargs else {})
    elif kwargs:
        raise Unsupported("unexpected keyword arguments %s for %s" % (list(kwargs), f.qual))
    return env


def is_trivial(f):
    b = f.body
    if len(b) != 1:
        return False
    if isinstance(b[0], (ast.Return, ast.Pass)):
        return True
    # a one-statement forwarder such as  super().__init__(stream)  /  self._set_stream(stream)
    return isinstance(b[0], ast.Expr) and isinstance(b[0].value, ast.Call) and f.name == "__init__"


def call_function(eng, f, recv, args, kwargs, st, recv_static=None, via_super=False, exact=False):
    c = eng.reg.contracts.get(f.qual)
    alt = eng.reg.interface_calls.get((getattr(getattr(eng, "func", None), "qual", None), f.qual))
    if alt is not None and not eng.spec:
        c = eng.reg.contracts[alt]
    if eng.reg.variants and any(q == f.qual for (q, _c) in eng.reg.variants):
        on_self = recv is not None and "self" in st.env and st.env["self"].t is not None and recv.t is not None \
            and recv.t.eq(st.env["self"].t)
        if f.name == "__init__":
            c = eng.reg.contract_for(f.qual, eng.self_class if (on_self and eng.self_class) else recv_static)
        elif on_self and eng.self_class:
            c = eng.reg.contract_for(f.qual, eng.self_class)
        else:
            vcls = [cl for (q, cl) in eng.reg.variants if q == f.qual]
            if recv is not None and recv.ty.kind == "ref" and any(
                    eng.table.is_subclass(v, recv.ty.cls) or eng.table.is_subclass(recv.ty.cls, v) for v in vcls):
                raise Unsupported("%s has receiver-class specific contracts %s: a call on a receiver other than self "
                                  "cannot choose one" % (f.qual, vcls))
    if eng.spec:
        return spec_method_call(eng, f, c, recv, args, kwargs, st)
    eng.callees.add(f.qual)
    if c is not None and not c.inline:
        if via_super and f.cls and eng.self_class and recv is not None and "self" in st.env \
                and recv.t.eq(st.env["self"].t) and not c.abstract:
            verified_for = c.for_classes or [f.cls]
            if eng.self_class not in verified_for:
                raise Unsupported("contract of %s is used through super()/explicit base call for receiver "
                                  "class %s but is only verified for %s" % (f.qual, eng.self_class, verified_for))
        return apply_contract(eng, c, f, recv, args, kwargs, st)
    if c is None and not is_trivial(f):
        raise Unsupported("callee %s has no contract (and is not a one-line getter)" % f.qual)
    return inline_call(eng, f, recv, args, kwargs, st)


def spec_method_call(eng, f, c, recv, args, kwargs, st):
    """Inside a spec expression a method call denotes the value the method would return
    (only for trivial getters and pure contract functions with a defining ensures)."""
    if is_trivial(f) and isinstance(f.body[0], ast.Return):
        env = bind_params(eng, f, recv, args, kwargs, st)
        s = st.fork()
        s.env = env
        saved = (eng.cur_class, eng.func)
        eng.cur_class, eng.func = f.cls, f
        try:
            return [(st, eng.ev1(f.body[0].value, s))]
        finally:
            eng.cur_class, eng.func = saved
    raise Unsupported("method call %s in spec" % f.qual)


def inline_call(eng, f, recv, args, kwargs, st):
    from . import stmts
    if eng.inline_depth > 6:
        raise Unsupported("inline depth")
    env = bind_params(eng, f, recv, args, kwargs, st)
    s = st.fork()
    caller_env = st.env
    s.env = env
    saved = (eng.cur_class, eng.func, eng.loop_ord)
    eng.cur_class, eng.func, eng.loop_ord = f.cls, f, {}
    eng.inline_depth += 1
    eng.inlined.add(f.qual)
    try:
        outs = []
        for s2, ctl in stmts.exec_block(eng, f.body, s):
            s2.env = dict(caller_env)
            if ctl[0] == "return":
                outs.append((s2, ctl[1]))
            elif ctl[0] == "next":
                outs.append((s2, mk_none()))
            elif ctl[0] == "raise":
                outs.append((s2, ctl[1]))
            else:
                raise Unsupported("break/continue escaping function")
        return outs
    finally:
        eng.cur_class, eng.func, eng.loop_ord = saved
        eng.inline_depth -= 1


def resolve_path(eng, path, env, st):
    """'self._x' / 'event._y' / 'self.*' -> list of (ref SV, cls, fieldname)."""
    obj, fld = path.rsplit(".", 1)
    if not obj.isidentifier():
        # chained path self._random.g_S : the owner object is evaluated in the given state
        o = eng.spec_value(obj, st, env=env)
    elif obj not in env:
        raise Unsupported("modifies path %s: unknown object" % path)
    else:
        o = env[obj]
    if o.ty.kind != "ref":
        raise Unsupported("modifies path %s on %r" % (path, o.ty))
    if fld == "*":
        out = []
        seen = set()
        for cname in eng.table.mro(o.ty.cls if obj != "self" or not eng.self_class or True else eng.self_class):
            for fn in eng.reg.fields.get(cname, {}):
                if fn not in seen:
                    seen.add(fn)
                    out.append((o, o.ty.cls, fn))
        return out
    return [(o, o.ty.cls, fld)]


def havoc_paths(eng, paths, env, st):
    for p in paths:
        if p == "heap.*":
            for key in list(st.heap):
                arr = st.heap[key]
                st.heap[key] = S.fresh("Hh_" + key, arr.sort())
                if key in eng.reg.immutable_fields:
                    # fields that are only written by constructors: unchanged for every object that
                    # existed before the callback
                    r = z3.Int("imm_r")
                    st.assume(z3.ForAll([r], z3.Implies(z3.And(0 < r, r < eng.A0 + st.nalloc),
                                                        z3.Select(st.heap[key], r) == z3.Select(arr, r)),
                                        patterns=[z3.Select(st.heap[key], r)]))
            st.notes.append("havoc heap.*")
            continue
        if p.startswith("heap."):
            key = p[5:]
            for k2 in list(st.heap):
                if k2 == key:
                    st.heap[k2] = S.fresh("Hh_" + k2, st.heap[k2].sort())
            continue
        for o, cls, fn in resolve_path(eng, p, env, st):
            d = eng.field_decl(cls, fn)
            if d is None:
                raise Unsupported("modifies: undeclared field %s.%s" % (cls, fn))
            dc, ty, ghost = d
            key = "%s.%s" % (dc, fn)
            arr = eng.heap_arr(st, key, ty)
            st.heap[key] = z3.Store(arr, o.t, S.fresh("hv_" + fn, S.sort_of(ty)))
    # fields the contracts do not know (auto-declared diagnostic fields): no frame condition speaks about them, so every
    # callee / loop body may have written them
    for key in getattr(eng.reg, "auto_keys", ()):
        if key in st.heap:
            st.heap[key] = S.fresh("Ha_" + key, st.heap[key].sort())


def apply_contract(eng, c, f, recv, args, kwargs, st):
    k = eng.site("call:" + c.qual)
    if c.effects != "deterministic":
        eng.effects_used.add("%s: %s" % (c.qual, c.effects))
    env = bind_params(eng, f, recv, args, kwargs, st, c)
    # coerce arguments to the contract's parameter types; failing coercions are call-site
    # precondition obligations (type part of the precondition)
    for n, ty in c.params.items():
        if n in env:
            v, cond = eng.coerce(env[n], ty)
            if cond is not None:
                eng.oblige("call-pre.%s#%d.type(%s)" % (c.qual, k, n), "call-pre", st, cond)
                st.assume(cond)
            env[n] = v
    pre = st
    spec_env = dict(env)
    for i, r in enumerate(c.requires):
        g = eng.spec_eval(r, pre, old=pre, env=spec_env)
        lab = c.labels.get(r, str(i))
        eng.oblige("call-pre.%s#%d.%s" % (c.qual, k, lab), "call-pre", st, g)
        st.assume(g)
    outs = []
    # exceptional outcomes
    neg = []
    for exc, cond in list(c.raises) + list(c.may_raise):
        g = eng.spec_eval(cond, pre, old=pre, env=spec_env)
        s3 = st.fork().assume(g)
        orz = c.on_raise
        if isinstance(orz, dict):
            orz = "unchanged"
            for k2, v2 in c.on_raise.items():
                if exc_is(exc, k2):
                    orz = v2
                    break
        if orz != "unchanged":
            paths = c.modifies if orz == "any" else orz
            havoc_paths(eng, paths, env, s3)
            limit_havoc(eng, c, pre, s3, spec_env, env)
            keep_receiver(eng, c, recv, pre, s3)
            for cl in c.exc_ensures:
                s3.assume(eng.spec_eval(cl, s3, old=pre, env=spec_env))
        if orz != "unchanged":
            apply_preserves(eng, c, st.env, s3, pre)
        s3.notes.append("%s raised %s" % (c.qual, exc))
        outs.append((s3, Raise(exc, origin="callee:" + c.qual, site="call:%s#%d" % (c.qual, k))))
        if (exc, cond) in c.raises:
            neg.append(z3.Not(g))
    s2 = st.fork()
    for n_ in neg:
        s2.assume(n_)
    havoc_paths(eng, c.modifies, env, s2)
    limit_havoc(eng, c, pre, s2, spec_env, env)
    keep_receiver(eng, c, recv, pre, s2)     # after: both branches of a conditional havoc agree on the receiver's kept fields
    if not c.pure:
        bump = S.fresh("nalloc_call", z3.IntSort())
        s2.assume(bump >= 0)
        s2.nalloc = s2.nalloc + bump
    # result
    res = None
    if c.returns.kind != "none":
        res = SV(c.returns, S.fresh("ret_" + f.name, S.sort_of(c.returns)))
        if c.returns.kind == "ref":
            s2.assume(res.t >= 0 if c.returns.nullable else res.t > 0)
            s2.assume(res.t < eng.A0 + s2.nalloc)
        if c.returns.kind == "seq":
            res.const = "fresh"
    # ghost updates of the callee
    for path, expr in c.ghost_exit:
        for o, cls, fn in resolve_path(eng, path, env, pre):
            val = eng.spec_value(expr, s2, old=pre, env=spec_env)
            eng.store_field(s2, o.t, cls, fn, val)
    for cl in list(c.ensures) + list(c.assumed_ensures):
        s2.assume(eng.spec_eval(cl, s2, old=pre, result=res, env=spec_env))
    apply_preserves(eng, c, st.env, s2, pre)
    if "heap.*" in c.modifies:
        for gname, gfn in eng.reg.global_invs:
            s2.assume(gfn(eng, s2))
    s2.notes.append("called %s" % c.qual)
    outs.append((s2, res if res is not None else mk_none()))
    return outs


def limit_havoc(eng, c, pre, s_after, spec_env, env):
    """havoc_only_if: when the condition is false in the pre-state only the contract's quiet_modifies paths
    change on objects that existed before (the callee proves this: nohavoc.* obligations); objects allocated
    by the callee are unreachable for the caller."""
    if not c.havoc_only_if:
        return
    cond = z3.simplify(eng.spec_eval(c.havoc_only_if, pre, old=pre, env=spec_env))
    changed = [k for k in s_after.heap if k in pre.heap and not s_after.heap[k].eq(pre.heap[k])]
    if not changed:
        return
    decided = None
    if z3.is_true(cond):
        decided = True
    elif z3.is_false(cond):
        decided = False
    else:
        try:
            if eng.prover.quick(pre.pc, z3.Not(cond)) == "proved":
                decided = False
        except Exception:
            decided = None
    if decided is True:
        return
    quiet = pre.fork()
    if c.quiet_modifies:
        havoc_paths(eng, c.quiet_modifies, env, quiet)
        s_after.pc.extend(quiet.pc[len(pre.pc):])
    for k in changed:
        other = quiet.heap.get(k, pre.heap[k])
        if decided is False:
            s_after.heap[k] = other
        else:
            # a fresh array constant (heap arrays are used in quantifier patterns: no ite-terms in the heap)
            nc = S.fresh("Hc_" + k, pre.heap[k].sort())
            d = nc == z3.If(cond, s_after.heap[k], other)
            from .prover import register_def
            register_def(d, nc)
            s_after.assume(d)
            s_after.heap[k] = nc


def keep_receiver(eng, c, recv, pre, s_after):
    if not c.receiver_keeps or recv is None or recv.ty.kind != "ref":
        return
    cls, excluded, _note = c.receiver_keeps
    rc = eng.self_class if ("self" in pre.env and pre.env["self"].t is not None and recv.t.eq(pre.env["self"].t) and eng.self_class) else recv.ty.cls
    if not eng.table.is_subclass(rc, cls):
        return
    seen = set()
    for cname in eng.table.mro(rc):
        for fn, (ty, ghost) in eng.reg.fields.get(cname, {}).items():
            if fn in excluded or fn in seen:
                continue
            seen.add(fn)
            key = "%s.%s" % (cname, fn)
            if key in s_after.heap and key in pre.heap and not s_after.heap[key].eq(pre.heap[key]):
                s_after.heap[key] = z3.Store(s_after.heap[key], recv.t, z3.Select(pre.heap[key], recv.t))


def apply_preserves(eng, c, caller_env, s_after, pre):
    """Rely conditions of a callback contract for the objects in the caller's scope."""
    for cls, clause in c.preserves:
        seen = []
        for n, v in caller_env.items():
            if n.startswith("$") or v is None or v.ty.kind != "ref" or v.t is None:
                continue
            vc = eng.self_class if (n == "self" and eng.self_class) else v.ty.cls
            if not eng.table.is_subclass(vc, cls):
                continue
            if any(v.t.eq(t) for t in seen):
                continue
            seen.append(v.t)
            x = SV(REF(vc), v.t)
            s_after.assume(eng.spec_eval(clause, s_after, old=pre, env={"x": x}))


def construct(eng, cname, args, kwargs, st):
    """Cls(args): allocate, run __init__ (contract or inline), return the new reference."""
    hook = eng.reg.specfuns.get("construct_" + cname)
    if hook:
        return hook(eng, st, args, kwargs)
    r = eng.A0 + st.nalloc
    st.nalloc = st.nalloc + 1
    st.assume(S.typeof(r) == eng.class_id(cname))
    obj = SV(REF(cname), z3.simplify(r))
    init = eng.table.resolve(cname, "__init__")
    if init is None:
        return [(st, obj)]
    saved = eng.self_class
    outs = []
    try:
        if eng.reg.contracts.get(init.qual) is None or eng.reg.contracts[init.qual].inline:
            eng.self_class = cname
        for s, v in call_function(eng, init, obj, args, kwargs, st, cname, False):
            if isinstance(v, Raise):
                outs.append((s, v))
            else:
                outs.append((s, obj))
    finally:
        eng.self_class = saved
    return outs
