"""Discharge of obligations: z3 (Python API) first, cvc5 / z3-new CLI for unknowns."""
import os
import subprocess
import tempfile
import time

import z3

QUICK_MS = int(os.environ.get("PYVC_TIMEOUT_MS", "10000"))
DEBUG = bool(os.environ.get("PYVC_DEBUG"))


def forked(fn, timeout_s):
    """Run fn() in a forked child with a hard wall-clock limit (z3's own timeout is not always
    honoured inside nlsat).  fn must return a JSON-serialisable value.  Returns (ok, value)."""
    import json as _json
    import select
    import signal
    r, w = os.pipe()
    pid = os.fork()
    if pid == 0:
        try:
            os.close(r)
            try:
                val = fn()
                data = _json.dumps({"ok": True, "val": val})
            except BaseException as e:      # noqa
                data = _json.dumps({"ok": False, "val": "%s: %s" % (type(e).__name__, e)})
            os.write(w, data.encode())
        finally:
            os._exit(0)
    os.close(w)
    buf = b""
    deadline = time.time() + timeout_s
    try:
        while True:
            left = deadline - time.time()
            if left <= 0:
                break
            rl, _, _ = select.select([r], [], [], left)
            if not rl:
                break
            chunk = os.read(r, 65536)
            if not chunk:
                break
            buf += chunk
    finally:
        os.close(r)
        try:
            os.kill(pid, signal.SIGKILL)
        except OSError:
            pass
        try:
            os.waitpid(pid, 0)
        except OSError:
            pass
    if not buf:
        return False, "hard timeout"
    try:
        d = _json.loads(buf.decode())
        return d["ok"], d["val"]
    except Exception:
        return False, "garbled child output"


class Obligation:
    __slots__ = ("name", "kind", "status", "backend", "time_s", "model", "detail", "unit",
                 "props", "reason", "paths", "smt2")

    def __init__(self, name, kind):
        self.name = name
        self.kind = kind
        self.status = "proved"      # proved | refuted | unknown | syntactic
        self.backend = "z3"
        self.time_s = 0.0
        self.model = None
        self.detail = None
        self.unit = None
        self.props = []
        self.reason = None
        self.paths = 0
        self.smt2 = None

    def as_dict(self):
        return {k: getattr(self, k) for k in self.__slots__ if k != "smt2"}


def _model_to_dict(m, limit=400):
    out = {}
    try:
        for d in m.decls():
            if d.arity() == 0:
                s = str(m[d])
                if len(s) < limit:
                    out[d.name()] = s
    except Exception as e:     # pragma: no cover
        out["<model-error>"] = str(e)
    return out


DEFS = {}       # ast id of a definitional hypothesis  ->  (hypothesis kept alive, defined constant)
_CONSTS = {}    # ast id -> (term kept alive, frozenset of ids of the uninterpreted constants in it)


def register_def(hyp, const):
    """``hyp`` is ``const == <term>`` for a fresh constant that occurs nowhere before: dropping it when nothing else
    mentions ``const`` loses nothing (any model extends to it)."""
    DEFS[hyp.get_id()] = (hyp, const)


def consts_of(t):
    i = t.get_id()
    hit = _CONSTS.get(i)
    if hit is not None:
        return hit[1]
    if len(_CONSTS) > 600000:
        _CONSTS.clear()
    if z3.is_quantifier(t):
        r = consts_of(t.body())
    elif z3.is_app(t):
        if t.num_args() == 0:
            r = frozenset([i]) if t.decl().kind() == z3.Z3_OP_UNINTERPRETED else frozenset()
        else:
            acc = set()
            for c in t.children():
                acc |= consts_of(c)
            r = frozenset(acc)
    else:
        r = frozenset()
    _CONSTS[i] = (t, r)
    return r


def prune_defs(hyps, goal):
    """Drop definitional hypotheses (register_def) whose constant is not reachable from the goal and the other
    hypotheses.  Fewer hypotheses: a proof stays a proof; a counter-model extends to the dropped definitions."""
    if not DEFS:
        return hyps
    defs, others = [], []
    for h in hyps:
        if not isinstance(h, bool) and h.get_id() in DEFS:
            defs.append((h, DEFS[h.get_id()][1].get_id()))
        else:
            others.append(h)
    if len(defs) < 40:
        return hyps
    rel = set()
    for t in others:
        if not isinstance(t, bool):
            rel |= consts_of(t)
    if goal is not None and not isinstance(goal, bool):
        rel |= consts_of(goal)
    keep = []
    pending = defs
    changed = True
    while changed and pending:
        changed = False
        rest = []
        for h, cid in pending:
            if cid in rel:
                keep.append(h)
                rel |= consts_of(h)
                changed = True
            else:
                rest.append((h, cid))
        pending = rest
    return others + keep


def guarded(s, budget_ms):
    """s.check() with a watchdog: z3 does not always honour its own timeout (sequence / quantifier
    instantiation loops); after 1.5x the budget + 2 s the context is interrupted and the answer is unknown."""
    import threading
    t = threading.Timer(1.5 * budget_ms / 1000.0 + 2.0, z3.main_ctx().interrupt)
    t.daemon = True
    t.start()
    try:
        return s.check()
    except z3.Z3Exception:
        return z3.unknown
    finally:
        t.cancel()


class Prover:
    def __init__(self, timeout_ms=None, axioms=(), use_cli=True):
        self.timeout_ms = timeout_ms or QUICK_MS
        self.axioms = list(axioms)
        self.use_cli = use_cli
        self.stats = {"z3": 0, "cvc5": 0, "z3-new": 0, "syntactic": 0}

    def check(self, hyps, goal, want_model=True, timeout_ms=None, eval_terms=None, axioms=True, cli=True):
        """Return (status, backend, seconds, model-dict, reason).  status in proved/refuted/unknown."""
        t0 = time.time()
        g = z3.simplify(goal) if not isinstance(goal, bool) else z3.BoolVal(goal)
        if z3.is_true(g):
            self.stats["syntactic"] += 1
            return "proved", "syntactic", 0.0, None, None
        hyps = prune_defs(hyps, g)
        use_cli = self.use_cli and cli
        s = z3.Solver()
        s.set("timeout", timeout_ms or self.timeout_ms)
        if axioms:
            for a in self.axioms:
                s.add(a)
        for h in hyps:
            s.add(h)
        s.add(z3.Not(g))
        if is_nonlinear(g) or any(is_nonlinear(h) for h in hyps if not isinstance(h, bool)):
            # nonlinear arithmetic: z3 may ignore its timeout; run under a hard limit
            def job():
                rr = s.check()
                md = None
                if rr == z3.sat and want_model:
                    m = s.model()
                    md = _model_to_dict(m)
                    if eval_terms:
                        for k, t in eval_terms.items():
                            try:
                                md["@" + k] = str(m.eval(t, model_completion=True))
                            except Exception:
                                pass
                return [str(rr), md, s.reason_unknown() if rr == z3.unknown else None]
            tmo = (timeout_ms or self.timeout_ms) / 1000.0
            ok, val = forked(job, tmo + 3)
            dt = time.time() - t0
            if not ok:
                return "unknown", "z3", dt, None, "hard timeout (%s)" % val
            rs, md, reason = val
            if DEBUG and dt > 0.5:
                print("PYVC-SLOW nl-check %.2fs %s :: %s" % (dt, rs, str(g)[:300].replace("\n", " ")))
            if rs == "unsat":
                self.stats["z3"] += 1
                return "proved", "z3", dt, None, None
            if rs == "sat":
                return "refuted", "z3", dt, md, None
            if use_cli:
                st_cli, be = self._cli(s)
                dt = time.time() - t0
                if st_cli == "unsat":
                    self.stats[be] += 1
                    return "proved", be, dt, None, None
            return "unknown", "z3", dt, None, reason
        full = timeout_ms or self.timeout_ms
        quantified = has_quantifier(g) or (axioms and self.axioms) or any(
            has_quantifier(h) for h in hyps if not isinstance(h, bool))
        if quantified and full > 3000:
            # quantifier / sequence reasoning: z3 either answers quickly or not at all; ask it
            # briefly, then cvc5, and only then z3 again with the full budget
            s.set("timeout", 3000)

            def job1():
                rr = s.check()
                md = None
                if rr == z3.sat and want_model:
                    m = s.model()
                    md = _model_to_dict(m)
                    if eval_terms:
                        for k, t in eval_terms.items():
                            try:
                                md["@" + k] = str(m.eval(t, model_completion=True))
                            except Exception:
                                pass
                return [str(rr), md]
            # also the brief attempt runs in a forked child (same reason as the full-budget one below: the hang was seen with
            # either budget); a child that overruns its hard limit counts as 'unknown'
            ok1, val1 = forked(job1, 3.0 + 4)
            if ok1 and val1[0] == "unsat":
                self.stats["z3"] += 1
                return "proved", "z3", time.time() - t0, None, None
            if ok1 and val1[0] == "sat":
                return "refuted", "z3", time.time() - t0, val1[1], None
            r = z3.unknown
            if r == z3.unknown and use_cli:
                st_cli, be = self._cli(s)
                dt = time.time() - t0
                if st_cli == "unsat":
                    self.stats[be] += 1
                    return "proved", be, dt, None, None
            if r == z3.unknown:
                # the full-budget attempt runs in a forked child under a hard wall-clock limit: inside its model-based
                # quantifier instantiation over sequences z3 5.1 sometimes neither honours its timeout nor sees interrupt()
                # (seen twice: a worker at 100 % CPU for 20 minutes in theory_seq::propagate under model_checker::check)
                s.set("timeout", full)

                def job2():
                    rr = s.check()
                    md = None
                    if rr == z3.sat and want_model:
                        m = s.model()
                        md = _model_to_dict(m)
                        if eval_terms:
                            for k, t in eval_terms.items():
                                try:
                                    md["@" + k] = str(m.eval(t, model_completion=True))
                                except Exception:
                                    pass
                    return [str(rr), md, s.reason_unknown() if rr == z3.unknown else None]
                ok, val = forked(job2, full / 1000.0 + 5)
                dt = time.time() - t0
                if not ok:
                    return "unknown", "z3", dt, None, "hard timeout (%s)" % val
                rs, md, reason = val
                if rs == "unsat":
                    self.stats["z3"] += 1
                    return "proved", "z3", dt, None, None
                if rs == "sat":
                    return "refuted", "z3", dt, md, None
                return "unknown", "z3", dt, None, reason
        else:
            r = guarded(s, full)
        dt = time.time() - t0
        if DEBUG and dt > 0.5:
            print("PYVC-SLOW check %.2fs %s to=%s :: %s" % (dt, r, timeout_ms or self.timeout_ms, str(g)[:160].replace("\n", " ")))
        if r == z3.unsat:
            self.stats["z3"] += 1
            return "proved", "z3", dt, None, None
        if r == z3.sat:
            md = None
            if want_model:
                m = s.model()
                md = _model_to_dict(m)
                if eval_terms:
                    for k, t in eval_terms.items():
                        try:
                            md["@" + k] = str(m.eval(t, model_completion=True))
                        except Exception:
                            pass
            return "refuted", "z3", dt, md, None
        reason = s.reason_unknown()
        if use_cli:
            st, be = self._cli(s)
            dt = time.time() - t0
            if st == "unsat":
                self.stats[be] += 1
                return "proved", be, dt, None, None
            if st == "sat":
                return "refuted", be, dt, {"<model>": "sat reported by %s (no model extracted)" % be}, None
        return "unknown", "z3", dt, None, reason

    def quick(self, hyps, goal, timeout_ms=1500):
        """z3 only, no CLI back ends, no model: 'proved' or 'unknown' (used for engine-side case decisions)."""
        g = z3.simplify(goal) if not isinstance(goal, bool) else z3.BoolVal(goal)
        if z3.is_true(g):
            return "proved"
        if z3.is_false(g):
            return "unknown"
        hyps = prune_defs(hyps, g)
        s = z3.Solver()
        s.set("timeout", timeout_ms)
        # only the ground, linear part of the hypotheses (fewer hypotheses: still a proof when it succeeds)
        for h in split_hyps(hyps):
            if not has_quantifier(h) and not is_nonlinear(h):
                s.add(h)
        s.add(z3.Not(g))
        if is_nonlinear(g):
            return "unknown"
        return "proved" if guarded(s, timeout_ms) == z3.unsat else "unknown"

    def check_nra(self, hyps, goal, timeout_ms=None):
        t0 = time.time()
        tmo = timeout_ms or self.timeout_ms
        ok, val = forked(lambda: self._check_nra(hyps, goal, tmo)[0], 2.5 * tmo / 1000.0 + 2)
        if not ok:
            if DEBUG:
                print("PYVC-SLOW nra hard-stop (%s) :: %s" % (val, str(goal)[:120].replace("\n", " ")))
            return "unknown", time.time() - t0
        return val, time.time() - t0

    def _check_nra(self, hyps, goal, timeout_ms=None):
        """Purified pure-arithmetic attempt: drop quantified hypotheses, abstract every
        non-arithmetic subterm by a fresh constant (a sound weakening of the hypotheses) and
        run z3's QF_NRA solver.  Only an 'unsat' answer is used."""
        t0 = time.time()
        hyps = prune_defs(hyps, goal)
        ground = [z3.simplify(h) for h in split_hyps(hyps) if not has_quantifier(h)]
        ng = z3.simplify(z3.Not(goal))
        r = z3.unknown
        # 1. field identity by substitution of proved hypothesis equalities (exact arithmetic)
        try:
            from . import field
            pur = Purifier(opaque_ite=True)
            fh = [pur.formula(h) for h in ground]
            fg = pur.formula(z3.simplify(goal))
            if field.prove_identity(fh, fg):
                return "unsat-field", time.time() - t0
        except Exception:
            pass
        for opaque in (True, False):
            pur = Purifier(opaque_ite=opaque)
            fs = [pur.formula(h) for h in ground] + [pur.formula(ng)]
            s = z3.SolverFor("QF_NRA")
            s.set("timeout", timeout_ms or self.timeout_ms)
            for f in fs:
                s.add(f)
            r = s.check()
            if r == z3.unsat:
                break
        if DEBUG and time.time() - t0 > 0.5:
            print("PYVC-SLOW nra %.2fs %s :: %s" % (time.time() - t0, r, str(goal)[:160].replace("\n", " ")))
        return str(r), time.time() - t0

    def check_split(self, hyps, goal, eval_terms=None):
        """Split the goal into conjuncts (through implications) and discharge each; an
        'unknown' conjunct is retried without the quantified hypotheses (fewer hypotheses:
        still a proof if it succeeds)."""
        parts = split_goal(goal if not isinstance(goal, bool) else z3.BoolVal(goal))
        hyp_ids = None
        worst = ("proved", "syntactic", 0.0, None, None)
        order = {"proved": 0, "unknown": 1, "refuted": 2}
        total = 0.0
        for g in parts:
            r = None
            if z3.is_quantifier(g) or z3.is_app(g):
                if hyp_ids is None:
                    hyp_ids = {h.get_id() for h in split_hyps(hyps)}
                if g.get_id() in hyp_ids:
                    # the conjunct is literally one of the hypotheses
                    self.stats["syntactic"] += 1
                    continue
            if is_nonlinear(g):
                st, dt = self.check_nra(hyps, g, timeout_ms=min(self.timeout_ms, 8000))
                if st == "unsat":
                    self.stats["z3"] += 1
                    r = ("proved", "z3-nra", dt, None, None)
                elif st == "unsat-field":
                    self.stats["field"] = self.stats.get("field", 0) + 1
                    r = ("proved", "field+z3", dt, None, None)
            if r is None and not has_quantifier(g):
                # cheap and stable first: ground hypotheses only, no quantified axioms (fewer
                # hypotheses: still a proof when it succeeds)
                hs = split_hyps(hyps)
                ground = [h for h in hs if not has_quantifier(h)]
                if len(ground) < len(hs) or self.axioms:
                    r2 = self.check(ground, g, want_model=False, timeout_ms=min(3000, self.timeout_ms), axioms=False, cli=False)
                    if r2[0] == "proved":
                        r = r2
            if r is None:
                r = self.check(hyps, g, eval_terms=eval_terms)
            total += r[2]
            if r[0] == "refuted":
                m = r[3] or {}
                m["<failed-conjunct>"] = str(z3.simplify(g))[:500]
                return ("refuted", r[1], total, m, None)
            if order[r[0]] > order[worst[0]] or (r[0] == worst[0] and worst[1] == "syntactic"):
                worst = r
                if r[0] == "unknown":
                    worst = (r[0], r[1], r[2], r[3], "%s on conjunct %s" % (r[4], str(g)[:200]))
        return (worst[0], worst[1], total, worst[3], worst[4])

    def sat(self, hyps, timeout_ms=2000):
        """Is the conjunction satisfiable?  (cover / feasibility).  Returns 'sat'|'unsat'|'unknown'."""
        hyps = prune_defs(hyps, None)
        s = z3.Solver()
        s.set("timeout", timeout_ms)
        # quantified axioms/hypotheses are left out: a subset of the constraints being unsat
        # still means the whole set is unsat, and 'sat' answers become possible
        for h in split_hyps(hyps):
            if not has_quantifier(h):
                s.add(h)
        r = guarded(s, timeout_ms)
        return str(r)

    def _cli(self, solver):
        smt = "(set-logic ALL)\n" + solver.to_smt2()
        # z3 prints its internal variants of seq.nth; cvc5 knows only seq.nth (both leave
        # out-of-bounds access unspecified)
        smt = smt.replace("seq.nth_u", "seq.nth").replace("seq.nth_i", "seq.nth")
        fd, path = tempfile.mkstemp(suffix=".smt2", prefix="pyvc_")
        os.write(fd, smt.encode())
        os.close(fd)
        if os.environ.get("PYVC_KEEP_SMT"):     # debugging aid: keep a copy of every query sent to the CLI back ends
            import shutil
            shutil.copy(path, os.path.join(os.environ["PYVC_KEEP_SMT"], os.path.basename(path)))
        tsec = max(2, self.timeout_ms // 1000)
        csec = max(3 * tsec, 60)   # cvc5 decides the sequence/quantifier obligations z3 leaves open; give it room
        # (the slowest such obligation takes ~25 s on an idle machine: the floor keeps its verdict stable under load)
        try:
            for be, cmd, lim in (("cvc5", ["/usr/bin/cvc5", "--strings-exp", "--tlimit=%d" % (csec * 1000), path], csec),
                                 ("z3-new", ["z3-new", "-T:%d" % tsec, path], tsec)):
                t1 = time.time()
                try:
                    out = subprocess.run(cmd, capture_output=True, text=True, timeout=lim + 5).stdout
                except Exception:
                    continue
                first = out.strip().splitlines()[0] if out.strip() else ""
                if DEBUG:
                    print("PYVC-CLI %s %.2fs -> %s" % (be, time.time() - t1, first[:60]))
                if first in ("sat", "unsat"):
                    return first, be
        finally:
            os.unlink(path)
        return "unknown", None


def split_goal(g, depth=0):
    """Conjuncts of g, pushing through implications and ite-free structure."""
    g = g if depth else g
    if z3.is_and(g):
        out = []
        for c in g.children():
            out += split_goal(c, depth + 1)
        return out
    if z3.is_implies(g) and depth < 6:
        a, b = g.children()
        return [z3.Implies(a, c) for c in split_goal(b, depth + 1)]
    if z3.is_not(g) and z3.is_or(g.children()[0]):
        out = []
        for c in g.children()[0].children():
            out += split_goal(z3.Not(c), depth + 1)
        return out
    return [g]


_HQ = {}        # ast id -> (ast kept alive: z3 recycles ids after GC, answer)


def has_quantifier(f):
    if isinstance(f, bool):
        return False
    i = f.get_id()
    hit = _HQ.get(i)
    if hit is not None:
        return hit[1]
    if len(_HQ) > 400000:
        _HQ.clear()
    if z3.is_quantifier(f):
        r = True
    else:
        r = False
        for c in f.children():
            if has_quantifier(c):
                r = True
                break
    _HQ[i] = (f, r)
    return r


_NL = {}


def is_nonlinear(g):
    """memoised per AST id (terms kept alive: z3 recycles ids after GC)"""
    if isinstance(g, bool):
        return False
    i = g.get_id()
    hit = _NL.get(i)
    if hit is not None:
        return hit[1]
    if len(_NL) > 400000:
        _NL.clear()
    r = False
    if z3.is_quantifier(g):
        r = is_nonlinear(g.body())
    else:
        if z3.is_app(g):
            k = g.decl().kind()
            if k in (z3.Z3_OP_MUL, z3.Z3_OP_DIV, z3.Z3_OP_POWER):
                nonconst = [c for c in g.children() if not z3.is_rational_value(c) and not z3.is_int_value(c)]
                if k == z3.Z3_OP_DIV and not (z3.is_rational_value(g.arg(1)) or z3.is_int_value(g.arg(1))):
                    r = True
                elif len(nonconst) >= 2:
                    r = True
        if not r:
            for c in g.children():
                if is_nonlinear(c):
                    r = True
                    break
    _NL[i] = (g, r)
    return r


ARITH_OPS = None


class Purifier:
    """Abstract non-arithmetic subterms by fresh constants (same term -> same constant)."""

    def __init__(self, opaque_ite=False):
        self.opaque_ite = opaque_ite
        self.memo = {}
        self.abs = {}
        self.n = 0
        self.keep = []       # keep every visited AST alive: z3 recycles ids of collected terms

    def fresh(self, t):
        k = t.get_id()
        self.keep.append(t)
        if k not in self.abs:
            self.n += 1
            srt = t.sort()
            if srt == z3.IntSort():
                # integrality is dropped: integers are abstracted as reals
                self.abs[k] = z3.Real("pa!%d" % self.n)
            elif srt == z3.RealSort():
                self.abs[k] = z3.Real("pa!%d" % self.n)
            else:
                self.abs[k] = z3.Bool("pb!%d" % self.n)
        return self.abs[k]

    def term(self, t):
        """Arithmetic term -> Real-sorted pure term."""
        k = t.get_id()
        self.keep.append(t)
        if k in self.memo:
            return self.memo[k]
        r = self._term(t)
        self.memo[k] = r
        return r

    def _term(self, t):
        if z3.is_int_value(t):
            return z3.RealVal(t.as_long())
        if z3.is_rational_value(t):
            return t
        if z3.is_app(t):
            kd = t.decl().kind()
            ch = t.children()
            if kd == z3.Z3_OP_ADD:
                return z3.Sum([self.term(c) for c in ch])
            if kd == z3.Z3_OP_SUB:
                r = self.term(ch[0])
                for c in ch[1:]:
                    r = r - self.term(c)
                return r
            if kd == z3.Z3_OP_UMINUS:
                return -self.term(ch[0])
            if kd == z3.Z3_OP_MUL:
                r = self.term(ch[0])
                for c in ch[1:]:
                    r = r * self.term(c)
                return r
            if kd == z3.Z3_OP_DIV:
                return self.term(ch[0]) / self.term(ch[1])
            if kd == z3.Z3_OP_TO_REAL:
                return self.term(ch[0])
            if kd == z3.Z3_OP_POWER and z3.is_int_value(ch[1]) or (kd == z3.Z3_OP_POWER and z3.is_rational_value(ch[1]) and ch[1].denominator_as_long() == 1):
                e = ch[1].as_long() if z3.is_int_value(ch[1]) else ch[1].numerator_as_long()
                if 0 <= e <= 8:
                    r = z3.RealVal(1)
                    b = self.term(ch[0])
                    for _ in range(e):
                        r = r * b
                    return r
            if kd == z3.Z3_OP_ITE and (t.sort() == z3.RealSort() or t.sort() == z3.IntSort()):
                if self.opaque_ite and not is_arith_atom(ch[0]):
                    return self.fresh(t)
                return z3.If(self.formula(ch[0]), self.term(ch[1]), self.term(ch[2]))
            # push unary functions (datatype accessors, ToReal ...) through an ite argument so
            # that val(ite(c, fin(a), b)) and ite(c, a, val(b)) are the same pure term
            if len(ch) == 1 and z3.is_app(ch[0]) and ch[0].decl().kind() == z3.Z3_OP_ITE \
                    and not self.opaque_ite:
                c, a, b = ch[0].children()
                d = t.decl()
                return z3.If(self.formula(c), self.term(z3.simplify(d(a))), self.term(z3.simplify(d(b))))
        return self.fresh(t)

    def formula(self, f):
        k = ("f", f.get_id())
        self.keep.append(f)
        if k in self.memo:
            return self.memo[k]
        r = self._formula(f)
        self.memo[k] = r
        return r

    def _formula(self, f):
        if z3.is_true(f) or z3.is_false(f):
            return f
        if z3.is_app(f):
            kd = f.decl().kind()
            ch = f.children()
            if kd == z3.Z3_OP_AND:
                return z3.And(*[self.formula(c) for c in ch])
            if kd == z3.Z3_OP_OR:
                return z3.Or(*[self.formula(c) for c in ch])
            if kd == z3.Z3_OP_NOT:
                return z3.Not(self.formula(ch[0]))
            if kd == z3.Z3_OP_IMPLIES:
                return z3.Implies(self.formula(ch[0]), self.formula(ch[1]))
            if kd == z3.Z3_OP_ITE:
                return z3.If(self.formula(ch[0]), self.formula(ch[1]), self.formula(ch[2]))
            arith = ch and (ch[0].sort() == z3.RealSort() or ch[0].sort() == z3.IntSort())
            if kd == z3.Z3_OP_EQ:
                if arith:
                    return self.term(ch[0]) == self.term(ch[1])
                if ch[0].sort() == z3.BoolSort():
                    return self.formula(ch[0]) == self.formula(ch[1])
            if kd == z3.Z3_OP_DISTINCT and arith and len(ch) == 2:
                return self.term(ch[0]) != self.term(ch[1])
            if arith and kd == z3.Z3_OP_LE:
                return self.term(ch[0]) <= self.term(ch[1])
            if arith and kd == z3.Z3_OP_LT:
                return self.term(ch[0]) < self.term(ch[1])
            if arith and kd == z3.Z3_OP_GE:
                return self.term(ch[0]) >= self.term(ch[1])
            if arith and kd == z3.Z3_OP_GT:
                return self.term(ch[0]) > self.term(ch[1])
            if len(ch) == 1 and z3.is_app(ch[0]) and ch[0].decl().kind() == z3.Z3_OP_ITE \
                    and kd not in (z3.Z3_OP_AND, z3.Z3_OP_OR, z3.Z3_OP_NOT):
                c, a, b = ch[0].children()
                d = f.decl()
                return z3.If(self.formula(c), self.formula(z3.simplify(d(a))), self.formula(z3.simplify(d(b))))
        return self.fresh(f)


_SPLIT = {}     # ast id -> (hypothesis kept alive, its conjuncts)


def split_hyps(hyps):
    out = []
    for h in hyps:
        if isinstance(h, bool):
            h = z3.BoolVal(h)
        i = h.get_id()
        hit = _SPLIT.get(i)
        if hit is None:
            if len(_SPLIT) > 200000:
                _SPLIT.clear()
            hit = (h, split_goal(h))
            _SPLIT[i] = hit
        out += hit[1]
    return out


def is_arith_atom(c):
    if z3.is_app(c) and c.decl().kind() in (z3.Z3_OP_LE, z3.Z3_OP_LT, z3.Z3_OP_GE, z3.Z3_OP_GT):
        return True
    if z3.is_app(c) and c.decl().kind() == z3.Z3_OP_EQ and c.arg(0).sort() in (z3.RealSort(), z3.IntSort()):
        return True
    if z3.is_app(c) and c.decl().kind() in (z3.Z3_OP_NOT, z3.Z3_OP_AND, z3.Z3_OP_OR):
        return all(is_arith_atom(x) for x in c.children())
    return False
