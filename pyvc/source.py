"""Read /repo's current working tree with ``ast`` and build the class table.

Nothing is cached across runs: every check re-parses the files.  The verified
text is the code that runs; what the extraction drops is recorded per function
(see Function.dropped).
"""
import ast
import hashlib
import os

REPO = os.environ.get("PYVC_REPO", "/repo")
SRC = os.path.join(REPO, "src", "pydsol", "core")

MODULES = ["utils", "interfaces", "simevent", "eventlist", "pubsub", "streams",
           "distributions", "statistics", "units", "parameters", "model",
           "simulator", "experiment"]


_LINES = {}


def _segment(text, node):
    """ast.get_source_segment(text, node) with the line split cached per module text (same result)."""
    key = id(text)
    if key not in _LINES or _LINES[key][0] is not text:
        _LINES[key] = (text, ast._splitlines_no_ff(text))
    lines = _LINES[key][1]
    try:
        lineno, end_lineno = node.lineno - 1, node.end_lineno - 1
        col, end_col = node.col_offset, node.end_col_offset
    except AttributeError:
        return ""
    if end_lineno == lineno:
        return lines[lineno].encode()[col:end_col].decode()
    first = lines[lineno].encode()[col:].decode()
    last = lines[end_lineno].encode()[:end_col].decode()
    return "".join([first] + lines[lineno + 1:end_lineno] + [last])


class Function:
    def __init__(self, module, cls, node, text):
        self.module = module
        self.cls = cls                      # class name or None
        self.node = node
        self.name = node.name
        self.qual = (cls + "." if cls else "") + node.name
        if any(ast.unparse(d).endswith(".setter") for d in node.decorator_list):
            self.qual += "@setter"
        seg = _segment(text, node)
        self.segment = seg
        self.sha256 = hashlib.sha256(seg.encode()).hexdigest()
        self.decorators = [ast.unparse(d) for d in node.decorator_list]
        self.is_property = "property" in self.decorators
        self.is_setter = any(d.endswith(".setter") for d in self.decorators)
        self.is_classmethod = "classmethod" in self.decorators
        self.is_staticmethod = "staticmethod" in self.decorators
        self.is_abstract = "abstractmethod" in self.decorators
        self.lineno = node.lineno
        self.file = os.path.join(SRC, module + ".py")

    def store_names(self):
        """the function's local names in order of their first binding in the source text (parameters excluded)"""
        params = {a.arg for a in self.node.args.args + self.node.args.kwonlyargs + self.node.args.posonlyargs}
        out = []
        for n in sorted((x for x in ast.walk(self.node) if isinstance(x, ast.Name) and isinstance(x.ctx, ast.Store)),
                        key=lambda x: (x.lineno, x.col_offset)):
            if n.id not in params and n.id not in out:
                out.append(n.id)
        return out

    @property
    def body(self):
        b = self.node.body
        # drop the docstring
        if b and isinstance(b[0], ast.Expr) and isinstance(b[0].value, ast.Constant) \
                and isinstance(b[0].value.value, str):
            return b[1:]
        return b

    def has_docstring(self):
        b = self.node.body
        return bool(b and isinstance(b[0], ast.Expr) and isinstance(b[0].value, ast.Constant)
                    and isinstance(b[0].value.value, str))


class ClassInfo:
    def __init__(self, module, node):
        self.module = module
        self.node = node
        self.name = node.name
        self.bases = []
        for b in node.bases:
            if isinstance(b, ast.Name):
                self.bases.append(b.id)
            elif isinstance(b, ast.Subscript) and isinstance(b.value, ast.Name):
                self.bases.append(b.value.id)      # Generic[TIME], Simulator[TIME]
            elif isinstance(b, ast.Attribute):
                self.bases.append(b.attr)
        self.methods = {}       # name -> Function (getter for properties)
        self.setters = {}       # name -> Function
        self.consts = {}        # class-level simple assignments: name -> ast node


class Table:
    """All classes and module-level functions of pydsol.core, from the working tree."""

    def __init__(self, modules=MODULES):
        self.classes = {}
        self.functions = {}      # module-level functions: name -> Function
        self.module_text = {}
        self.module_ast = {}
        self.module_consts = {}  # module -> {name: ast node}
        for m in modules:
            path = os.path.join(SRC, m + ".py")
            if not os.path.exists(path):
                continue
            text = open(path, encoding="utf-8").read()
            tree = ast.parse(text)
            self.module_text[m] = text
            self.module_ast[m] = tree
            self.module_consts[m] = {}
            for node in tree.body:
                if isinstance(node, ast.ClassDef):
                    ci = ClassInfo(m, node)
                    for it in node.body:
                        if isinstance(it, ast.FunctionDef):
                            f = Function(m, node.name, it, text)
                            if f.is_setter:
                                ci.setters[it.name] = f
                            else:
                                ci.methods[it.name] = f
                        elif isinstance(it, ast.Assign) and len(it.targets) == 1 \
                                and isinstance(it.targets[0], ast.Name):
                            ci.consts[it.targets[0].id] = it.value
                        elif isinstance(it, ast.AnnAssign) and isinstance(it.target, ast.Name) \
                                and it.value is not None:
                            ci.consts[it.target.id] = it.value
                    self.classes[node.name] = ci
                elif isinstance(node, ast.FunctionDef):
                    self.functions[node.name] = Function(m, None, node, text)
                elif isinstance(node, ast.Assign) and len(node.targets) == 1 \
                        and isinstance(node.targets[0], ast.Name):
                    self.module_consts[m][node.targets[0].id] = node.value
                elif isinstance(node, ast.AnnAssign) and isinstance(node.target, ast.Name) and node.value is not None:
                    self.module_consts[m][node.target.id] = node.value
        self._mro = {}

    # -- C3 linearisation over the classes we know; unknown bases (ABC, float, Thread,
    #    Generic, Enum ...) are kept as leaf names at the end.
    def mro(self, name):
        if name in self._mro:
            return self._mro[name]
        ci = self.classes.get(name)
        if ci is None:
            res = [name]
        else:
            seqs = [list(self.mro(b)) for b in ci.bases] + [list(ci.bases)]
            res = [name]
            while True:
                seqs = [s for s in seqs if s]
                if not seqs:
                    break
                for s in seqs:
                    cand = s[0]
                    if not any(cand in t[1:] for t in seqs):
                        break
                else:
                    raise TypeError("inconsistent MRO for " + name)
                res.append(cand)
                for s in seqs:
                    if s[0] == cand:
                        del s[0]
        self._mro[name] = res
        return res

    def is_subclass(self, a, b):
        return b in self.mro(a)

    def subclasses(self, b):
        return [c for c in self.classes if self.is_subclass(c, b)]

    def resolve(self, cls, meth, after=None):
        """Resolve ``meth`` in the MRO of ``cls``; with ``after`` = class name, start
        after that class (super())."""
        m = self.mro(cls)
        if after is not None:
            m = m[m.index(after) + 1:]
        for c in m:
            ci = self.classes.get(c)
            if ci and meth in ci.methods:
                return ci.methods[meth]
        return None

    def resolve_setter(self, cls, name):
        for c in self.mro(cls):
            ci = self.classes.get(c)
            if ci and name in ci.setters:
                return ci.setters[name]
            if ci and name in ci.methods and ci.methods[name].is_property:
                return None      # property found first without setter in this class
        return None

    def class_const(self, cls, name):
        for c in self.mro(cls):
            ci = self.classes.get(c)
            if ci and name in ci.consts:
                return ci.consts[name], c
        return None, None

    def get(self, qual):
        if "." in qual:
            c, m = qual.split(".", 1)
            ci = self.classes.get(c)
            if ci is None:
                return None
            if m.endswith("@setter"):
                return ci.setters.get(m[:-7])
            return ci.methods.get(m)
        return self.functions.get(qual)

    def assignments_to_field(self, field):
        """All (qualname) of functions in the tree that assign ``<x>.<field>`` — used by
        frame scans ("field f is written only in ...")."""
        out = []
        for cname, ci in self.classes.items():
            for f in list(ci.methods.values()) + list(ci.setters.values()):
                for n in ast.walk(f.node):
                    tg = []
                    if isinstance(n, ast.Assign):
                        tg = n.targets
                    elif isinstance(n, (ast.AugAssign, ast.AnnAssign)):
                        tg = [n.target]
                    for t in tg:
                        for tt in ast.walk(t):
                            if isinstance(tt, ast.Attribute) and tt.attr == field \
                                    and isinstance(tt.ctx, ast.Store):
                                out.append(f.qual)
        for f in self.functions.values():
            for n in ast.walk(f.node):
                if isinstance(n, ast.Attribute) and n.attr == field and isinstance(n.ctx, ast.Store):
                    out.append(f.qual)
        return sorted(set(out))
