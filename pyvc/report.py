"""Aggregate unit results: verdict, known findings, replays, evidence file, exit code."""
import hashlib
import json
import os
import re
import subprocess
import sys
import time

VERIF = os.path.dirname(os.path.dirname(os.path.abspath(__file__)))

SEMANTIC_ASSUMPTIONS = [
    "a parameter the contract does not type and that has a constant default (an optional parameter added after the contract was "
    "written) is fixed at its default while the function is verified: calls that pass it are outside the contracts",
    "spec names of locals follow a pure renaming of the local (recorded first-binding order in baseline/locals.json vs. the current "
    "source); this only selects the program variable a spec name denotes, every obligation is checked on the current code",
    "python ints are mathematical integers (as in Python)",
    "python floats are idealised: REAL = mathematical real (no rounding, overflow, underflow); "
    "XREAL = fin(r)|nan|+inf|-inf with IEEE comparison/arithmetic on the special values",
    "int/float distinction of numerics stored in float-typed fields is not tracked",
    "heap: one array per declared field (Burstall-Bornat); owned containers (lists/dicts held in a "
    "field) are values of the owning field; clients do not mutate returned internals",
    "closed world: the class hierarchy is the one in /repo; user subclasses are not covered",
    "exceptions modelled: explicit raise, ZeroDivisionError, ValueError(math domain, list.remove), "
    "KeyError, IndexError, TypeError (operator typing), AttributeError (property without setter), "
    "StatisticsError; not modelled: OverflowError, MemoryError, RecursionError, KeyboardInterrupt",
    "termination is not proved (partial correctness)",
    "induction over histories (every public operation preserves the invariant => it holds after "
    "every finite history) is meta-theory, trusted",
    "pyvc itself (AST->z3 VC generator, ~4 kLOC python) is trusted; kept honest by the mutant corpus "
    "and the CPython cross-check (DESIGN section 9)",
]


def slug(s):
    return re.sub(r"[^A-Za-z0-9_.#-]+", "_", s)[:150]


def load_findings():
    p = os.path.join(VERIF, "known_findings.json")
    if not os.path.exists(p):
        return {"findings": [], "fixed": []}
    return json.load(open(p))


def native_beyond_known(path, rec, findings, qual, replay_mod):
    """Run the function's native search when the solvers gave no verdict (undecided obligation / construct outside the subset).
    Listed findings of the same function are identified here by what the real code does -- the exception class that the
    function raises on the generated inputs -- because no obligation name is available: the search is told to pass over failures
    of those classes (and reports that it met them) so that every other kind of failure is still found and reported.
    -> (native result, listed findings met)"""
    # the native searches exercise a class as a whole (construct, draw, re-point ...): the listed findings of every function of
    # the class count, whichever of its functions is the undecided one
    klass = (qual or "").split(".")[0]
    mine = [f for f in findings if (f.get("unit") or "").split(".")[0] == klass]
    excs = sorted({m.group(1) for m in (re.match(r"noexc\.([A-Za-z]+)", f.get("obligation") or "") for f in mine) if m})
    if excs:
        rec["known_exceptions"] = excs
        with open(path, "w") as fh:
            json.dump(rec, fh, indent=1, default=str)
    native = replay_mod.try_native(path)
    met = [f for f in mine if any(("noexc.%s#" % e) in (f.get("obligation") or "") for e in (native.get("known_met") or []))]
    return native, met


def finish(prop, tier, seed, results, reg, table, wall, timeout_ms):
    from pyvc import replay as replay_mod
    findings = [f for f in load_findings().get("findings", []) if f.get("property") == prop]
    obls = []
    errors, unsupported, vacuous = [], [], []
    for r in results:
        if r.get("error"):
            errors.append("%s: %s" % (r["unit"], r["error"].splitlines()[0]))
        if r.get("unsupported"):
            unsupported.append("%s: %s" % (r["unit"], r["unsupported"]))
        if r.get("vacuous"):
            vacuous.append(r["unit"])
        for o in r["obligations"]:
            o = dict(o)
            o["unit"] = r["unit"]
            obls.append((r, o))
    n_total = len(obls)
    proved = [o for _, o in obls if o["status"] == "proved"]
    refuted = [(r, o) for r, o in obls if o["status"] == "refuted"]
    unknown = [o for _, o in obls if o["status"] == "unknown"]
    lines = []
    violations = []
    known_printed = []
    auto_undecided = []
    rdir = os.path.join(VERIF, "replays" if os.environ.get("PYVC_REPO", "/repo") == "/repo" else "replays_scratch", prop)
    for r, o in refuted:
        match = None
        for f in findings:
            if f.get("unit") == o["unit"] and f.get("obligation") == o["name"]:
                match = f
                break
        rec = {
            "property": prop, "unit": o["unit"], "obligation": o["name"], "kind": o["kind"],
            "function": r.get("qual"), "receiver_class": r.get("cls"),
            "file": r.get("file"), "line": r.get("line"), "segment_sha256": r.get("sha256"),
            "verdict": "refuted by %s in %.3fs" % (o["backend"], o["time_s"]),
            "solver_model": o.get("model"), "detail": o.get("detail"),
            "contract": contract_text(reg, r.get("qual")),
            "tier": tier, "written_at": time.strftime("%Y-%m-%dT%H:%M:%S"),
        }
        os.makedirs(rdir, exist_ok=True)
        path = os.path.join(rdir, slug(o["unit"] + "__" + o["name"]) + ".json")
        with open(path, "w") as fh:
            json.dump(rec, fh, indent=1, default=str)
        if o["kind"] == "ground":
            # a ground obligation is decided by evaluating the real module's data / source: the
            # evaluation *is* the native reproduction
            native = {"reproduced": True, "input": o["name"], "observed": (o.get("model") or {}).get("detail")}
        else:
            native = replay_mod.try_native(path)
        rec["native_replay"] = native
        with open(path, "w") as fh:
            json.dump(rec, fh, indent=1, default=str)
        if match is not None:
            known_printed.append(match)
            lines.append("KNOWN-FINDING: property=%s %s [%s %s]" % (prop, match.get("what", ""), o["unit"], o["name"]))
            continue
        rel = os.path.relpath(path, VERIF)
        if native.get("reproduced"):
            lines.append("VIOLATION property=%s replay=%s" % (prop, rel))
        elif r.get("auto_reads"):
            # the function reads a field that no contract knows (auto-declared): the solver's counterexample may put a value
            # there that the real code never stores.  Without a natively failing input this is undecided, not a violation.
            o2 = dict(o)
            o2["reason"] = "refuted only under arbitrary values of the field(s) outside the contracts %s; no failing input found " \
                           "natively (replay %s)" % (", ".join(r["auto_reads"]), rel)
            auto_undecided.append(o2)
            continue
        else:
            lines.append("VIOLATION property=%s replay=%s no-failing-input-found" % (prop, rel))
        violations.append({"unit": o["unit"], "obligation": o["name"], "replay": rel,
                           "reproduced_natively": bool(native.get("reproduced"))})
    # ---- obligations that were proved on the unchanged tree (committed baseline) and are now
    #      left open by the solvers: a bounded native search (the function's replayer) decides
    #      whether this is a violation; without a natively confirmed failing input it stays
    #      UNDECIDED (a failed proof alone is never reported as a violation)
    baseline = load_baseline(prop)
    still_unknown = []
    for r, o in obls:
        if o["status"] != "unknown":
            continue
        key = "%s||%s" % (o["unit"], o["name"])
        fn_changed = baseline.get("functions", {}).get(r.get("unit")) not in (None, r.get("sha256"))
        if fn_changed:
            rec = {"property": prop, "unit": o["unit"], "obligation": o["name"], "kind": o["kind"],
                   "function": r.get("qual"), "receiver_class": r.get("cls"), "file": r.get("file"),
                   "line": r.get("line"), "segment_sha256": r.get("sha256"),
                   "verdict": "obligation of a function whose source differs from the recorded baseline is not discharged "
                              "(%s): %s" % ("it was proved on the unchanged tree" if key in baseline.get("proved", []) else
                                            "it did not arise on the unchanged tree", o.get("reason")),
                   "solver_model": None, "detail": {"solver_reason": o.get("reason")},
                   "contract": contract_text(reg, r.get("qual")), "tier": tier}
            os.makedirs(rdir, exist_ok=True)
            path = os.path.join(rdir, slug(o["unit"] + "__" + o["name"]) + ".json")
            with open(path, "w") as fh:
                json.dump(rec, fh, indent=1, default=str)
            native, met = native_beyond_known(path, rec, findings, r.get("qual"), replay_mod)
            rec["native_replay"] = native
            with open(path, "w") as fh:
                json.dump(rec, fh, indent=1, default=str)
            for f in met:
                if f not in known_printed:
                    known_printed.append(f)
                    lines.append("KNOWN-FINDING: property=%s %s [%s, found natively]" % (prop, f.get("what", ""), o["unit"]))
            if native.get("reproduced"):
                rel = os.path.relpath(path, VERIF)
                lines.append("VIOLATION property=%s replay=%s" % (prop, rel))
                violations.append({"unit": o["unit"], "obligation": o["name"], "replay": rel,
                                   "reproduced_natively": True, "solver": "unknown (native search found the input)"})
                continue
        still_unknown.append(o)
    unknown = still_unknown + auto_undecided
    # ---- units the engine could not execute symbolically (construct outside the subset) whose source
    #      differs from the recorded baseline: the bounded native search decides; otherwise UNDECIDED
    still_unsupported = []
    for r in results:
        if not r.get("unsupported"):
            continue
        changed = baseline.get("functions", {}).get(r.get("unit")) not in (None, r.get("sha256"))
        done = False
        if changed and r.get("kind") == "function":
            rec = {"property": prop, "unit": r["unit"], "obligation": "unsupported-construct", "kind": "unsupported",
                   "function": r.get("qual"), "receiver_class": r.get("cls"), "file": r.get("file"), "line": r.get("line"),
                   "segment_sha256": r.get("sha256"),
                   "verdict": "the changed function uses a construct outside the verifier's subset (%s); all its obligations are open; "
                              "bounded native search of the function's replayer" % r["unsupported"],
                   "solver_model": None, "detail": {"unsupported": r["unsupported"]},
                   "contract": contract_text(reg, r.get("qual")), "tier": tier}
            os.makedirs(rdir, exist_ok=True)
            path = os.path.join(rdir, slug(r["unit"] + "__unsupported") + ".json")
            with open(path, "w") as fh:
                json.dump(rec, fh, indent=1, default=str)
            native, met = native_beyond_known(path, rec, findings, r.get("qual"), replay_mod)
            rec["native_replay"] = native
            with open(path, "w") as fh:
                json.dump(rec, fh, indent=1, default=str)
            for f in met:
                if f not in known_printed:
                    known_printed.append(f)
                    lines.append("KNOWN-FINDING: property=%s %s [%s, found natively]" % (prop, f.get("what", ""), r["unit"]))
            if native.get("reproduced"):
                rel = os.path.relpath(path, VERIF)
                lines.append("VIOLATION property=%s replay=%s" % (prop, rel))
                violations.append({"unit": r["unit"], "obligation": "unsupported-construct", "replay": rel,
                                   "reproduced_natively": True, "solver": "none (native search found the input)"})
                done = True
        if not done:
            still_unsupported.append("%s: %s" % (r["unit"], r["unsupported"]))
    unsupported = still_unsupported
    scan = []
    try:
        from pyvc.run import scan_assumptions
        scan = scan_assumptions()
    except Exception:
        pass
    status = 0
    if violations:
        status = 1
    elif errors or vacuous or scan or n_total == 0:
        status = 3
    elif unknown or unsupported:
        status = 2
    # ------------------------------------------------------------------ evidence
    fuc = []
    for r in results:
        if r.get("kind") == "function":
            fuc.append({"function": r["qual"], "receiver_class": r.get("cls"), "file": r.get("file"),
                        "line": r.get("line"), "segment_sha256": r.get("sha256"),
                        "obligations": len(r["obligations"]),
                        "proved": sum(1 for o in r["obligations"] if o["status"] == "proved"),
                        "dropped": r.get("dropped"), "inlined_callees": r.get("inlined"),
                        "contract_callees": [c for c in r.get("callees", []) if c not in (r.get("inlined") or [])],
                        "paths": r.get("paths"), "precondition_satisfiable": r.get("pre_sat"),
                        "covers": r.get("covers"), "wall_s": r.get("wall_s"),
                        "unsupported": r.get("unsupported"), "effects": r.get("effects")})
        else:
            fuc.append({"lemma" if r.get("kind") == "lemma" else "ground": r["qual"],
                        "obligations": len(r["obligations"]),
                        "proved": sum(1 for o in r["obligations"] if o["status"] == "proved"),
                        "reachable": r.get("pre_sat"), "wall_s": r.get("wall_s"),
                        "unsupported": r.get("unsupported")})
    backends = {}
    solver_time = 0.0
    for _, o in obls:
        backends[o["backend"]] = backends.get(o["backend"], 0) + 1
        solver_time += o.get("time_s") or 0.0
    samples = []
    for r, o in obls[:400]:
        if len(samples) >= 6:
            break
        if o["kind"] in ("post", "raises", "lemma", "loop", "ground") and o["status"] == "proved":
            samples.append({"unit": o["unit"], "obligation": o["name"], "kind": o["kind"],
                            "backend": o["backend"], "time_s": o["time_s"],
                            "contract": contract_text(reg, r.get("qual"))})
    trusted = list(reg.trusted) + list(dict.fromkeys(reg.axiom_notes))
    # BOUNDED stand-ins (native sweeps with a stated bound) are reported separately and never counted as discharged
    bounded = [o for _, o in obls if str(o["name"]).startswith("BOUNDED")]
    bounded_ok = [o for o in bounded if o["status"] == "proved"]
    ev = {
        "property_id": prop, "tier": tier, "seed": seed, "level": "proof",
        "coverage": {
            # obligations that match a listed known finding are reported separately (they are refuted,
            # natively reproduced defects of the repository, printed as KNOWN-FINDING lines)
            "obligations": n_total - len(known_printed) - len(bounded),
            "discharged": len(proved) - len(bounded_ok),
            "bounded_stand_ins": [{"unit": o["unit"], "bound": o["name"], "held_on_everything_explored": o["status"] == "proved"}
                                  for o in bounded],
            "bounded_note": "stand-ins labelled BOUNDED run the real code natively on a stated finite set of cases; they are "
                            "listed here and NOT included in obligations/discharged",
            "obligations_generated": n_total,
            "known_finding_obligations": len(known_printed),
            "refuted": len(refuted),
            "unknown": len(unknown),
            "checker_cmd": "./check %s --tier %s  (pyvc: ast -> z3 VCs from /repo working tree; z3 %s python API, "
                           "cvc5/z3-new CLI for unknowns; per-obligation timeout %d ms)" % (prop, tier, z3_version(), timeout_ms),
            "trusted_base": trusted + SEMANTIC_ASSUMPTIONS,
            "functions_under_contract": fuc,
            "obligations_by_backend": backends,
            "solver_time_s": round(solver_time, 3),
            "obligation_list": [{"unit": o["unit"], "name": o["name"], "kind": o["kind"], "status": o["status"],
                                 "backend": o["backend"], "time_s": o["time_s"], "paths": o["paths"]}
                                for _, o in obls],
            "samples": samples or [{"note": "no obligations"}],
            "unsupported": unsupported, "checker_errors": errors, "vacuous_units": vacuous,
            "assumption_scan_hits": scan,
            "known_findings_printed": [f.get("what") for f in known_printed],
            "violations": violations,
            "exit_status": status,
        },
        "assumptions": trusted + SEMANTIC_ASSUMPTIONS + (
            ["fields outside the contracts, auto-declared from their constant initialisation in __init__ (no frame condition or "
             "invariant speaks about them; assumed overwritten by every call and loop): " + "; ".join(getattr(reg, "auto_notes", []))]
            if getattr(reg, "auto_notes", None) else []),
        "wall_s": round(wall, 3),
        "violations": len(violations),
    }
    # runs against a scratch copy of the repository (PYVC_REPO set) never overwrite the evidence
    # of the real tree
    evdir = "evidence" if os.environ.get("PYVC_REPO", "/repo") == "/repo" else "evidence_scratch"
    os.makedirs(os.path.join(VERIF, evdir), exist_ok=True)
    with open(os.path.join(VERIF, evdir, prop + ".json"), "w") as fh:
        json.dump(ev, fh, indent=1, default=str)
    # ------------------------------------------------------------------ stdout
    print("pyvc %s tier=%s: %d units, %d obligations, %d proved, %d refuted, %d unknown, %.1fs"
          % (prop, tier, len(results), n_total, len(proved), len(refuted), len(unknown), wall))
    for l in lines:
        print(l)
    for u in unsupported:
        print("UNDECIDED (unsupported) " + u)
    for o in unknown:
        print("UNDECIDED (unknown) %s %s: %s" % (o["unit"], o["name"], o.get("reason")))
    for e in errors:
        print("CHECKER-ERROR " + e)
    for v in vacuous:
        print("CHECKER-ERROR vacuous precondition in " + v)
    for h in scan:
        print("CHECKER-ERROR unlisted assumption marker " + h)
    if n_total == 0:
        print("CHECKER-ERROR zero obligations generated for %s" % prop)
    return status


def load_baseline(prop):
    p = os.path.join(VERIF, "baseline", prop + ".json")
    if not os.path.exists(p):
        return {}
    try:
        return json.load(open(p))
    except Exception:
        return {}


def record_baseline(prop, results):
    proved, funcs = [], {}
    for r in results:
        funcs[r["unit"]] = r.get("sha256")
        for o in r["obligations"]:
            if o["status"] == "proved":
                proved.append("%s||%s" % (r["unit"], o["name"]))
    os.makedirs(os.path.join(VERIF, "baseline"), exist_ok=True)
    with open(os.path.join(VERIF, "baseline", prop + ".json"), "w") as fh:
        json.dump({"property": prop, "proved": sorted(proved), "functions": funcs}, fh, indent=0)
    # the names of the locals the sidecar specs refer to are those of this tree (see Engine.local_alias)
    import subprocess
    import sys
    subprocess.run([sys.executable, os.path.join(VERIF, "tools", "record_locals.py")], check=False, stdout=subprocess.DEVNULL)


def contract_text(reg, qual):
    c = reg.contracts.get(qual) if qual else None
    if c is None:
        return None
    return {"requires": c.requires, "ensures": c.ensures, "raises": [list(x) for x in c.raises],
            "may_raise": [list(x) for x in c.may_raise], "modifies": c.modifies,
            "ghost_exit": [list(x) for x in c.ghost_exit], "on_raise": c.on_raise}


def z3_version():
    import z3
    return z3.get_version_string()
