"""Assumed contracts on dependencies (the trusted base, DESIGN section 4)."""
import z3

from pyvc import sorts as S
from pyvc.sorts import SV, REAL, XREAL, INT, REF, XR
from pyvc.engine import Raise


def load(reg):
    # ---- statistics.NormalDist(0,1).inv_cdf(p): requires 0<p<1 else StatisticsError;
    #      result = Phi^-1(p), uninterpreted, strictly monotone, Phi^-1(0.5)=0
    reg.trust("statistics.NormalDist(mu,sigma).inv_cdf(p): raises StatisticsError unless 0<p<1; "
              "result = mu + sigma*PhiInv(p) with PhiInv uninterpreted, PhiInv(p)>0 iff p>0.5")

    def construct_NormalDist(eng, st, args, kwargs):
        r = S.fresh("normaldist", z3.IntSort())
        sv = SV(REF("NormalDist"), r)
        sv.items = [eng.coerce(a, REAL)[0] for a in args]
        return [(st, sv)]
    reg.specfun("construct_NormalDist", construct_NormalDist)

    def inv_cdf(eng, s, recv, args, kwargs):
        p = eng.coerce(args[0], REAL)[0].t
        phi = reg.ufun("PhiInv", z3.RealSort(), z3.RealSort())
        mu, sigma = recv.items[0].t, recv.items[1].t

        def cont(s2):
            r = phi(p)
            s2.assume(z3.And(z3.Implies(p > 0.5, r > 0), z3.Implies(p < 0.5, r < 0), z3.Implies(p == 0.5, r == 0)))
            return [(s2, SV(REAL, mu + sigma * r))]
        return eng.implicit(s, "StatisticsError", z3.Or(p <= 0, p >= 1), cont)
    reg.specfun("dep_NormalDist_inv_cdf", inv_cdf)


def load_seqref(reg):
    """Axiom set 'seqref': facts about sequences of references (z3 Seq(Int)) used by the
    pub/sub contracts.  nodup_ref is defined by the quantified formula; rm_ref (list.remove:
    delete the first equal element) is defined by its term.  The derived lemmas (L1-L4) are
    properties of finite sequences; they are assumed here (trusted, listed in the evidence) --
    they are exactly Mathlib's List.nodup_append / List.Nodup.erase / List.mem_erase_of_ne."""
    SI = z3.SeqSort(z3.IntSort())
    nodup = reg.ufun("nodup_ref", SI, z3.BoolSort())
    rm = reg.ufun("rm_ref", SI, z3.IntSort(), SI)
    s, x, y = z3.Const("ax_s", SI), z3.Int("ax_x"), z3.Int("ax_y")
    U = z3.Unit
    note = "sequence lemmas over Seq(ref): nodup/append/remove-first (assumed; = Mathlib List.nodup_append, List.Nodup.erase, List.mem_erase_of_ne)"
    A = lambda f: reg.scoped_axiom("seqref", f, note)
    # definition of rm_ref
    i = z3.IndexOf(s, U(x), 0)
    n = z3.Length(s)
    A(z3.ForAll([s, x], rm(s, x) == z3.If(z3.Contains(s, U(x)),
                                           z3.Concat(z3.SubSeq(s, 0, i), z3.SubSeq(s, i + 1, n - i - 1)), s),
                patterns=[rm(s, x)]))
    A(nodup(z3.Empty(SI)))
    A(z3.ForAll([x], nodup(U(x)), patterns=[nodup(U(x))]))
    # L1: nodup(s ++ [x]) <-> nodup(s) and x not in s
    A(z3.ForAll([s, x], nodup(z3.Concat(s, U(x))) == z3.And(nodup(s), z3.Not(z3.Contains(s, U(x)))),
                patterns=[nodup(z3.Concat(s, U(x)))]))
    # L2: removing from a duplicate-free sequence: x is gone, still duplicate free, one shorter
    A(z3.ForAll([s, x], z3.Implies(z3.And(nodup(s), z3.Contains(s, U(x))),
                                   z3.And(z3.Not(z3.Contains(rm(s, x), U(x))), nodup(rm(s, x)),
                                          z3.Length(rm(s, x)) == z3.Length(s) - 1)),
                patterns=[rm(s, x)]))
    # L3: other elements are unaffected by a removal
    A(z3.ForAll([s, x, y], z3.Implies(y != x, z3.Contains(rm(s, x), U(y)) == z3.Contains(s, U(y))),
                patterns=[z3.Contains(rm(s, x), U(y))]))
    # L4: membership in an appended sequence
    A(z3.ForAll([s, x, y], z3.Contains(z3.Concat(s, U(x)), U(y)) == z3.Or(z3.Contains(s, U(y)), y == x),
                patterns=[z3.Contains(z3.Concat(s, U(x)), U(y))]))
    # L5: length 0 iff empty; an element of a sequence makes it non-empty
    A(z3.ForAll([s, x], z3.Implies(z3.Contains(s, U(x)), z3.Length(s) > 0), patterns=[z3.Contains(s, U(x))]))
    # L6/L7: positions in a duplicate-free sequence
    j = z3.Int("ax_j")
    A(z3.ForAll([s, j], z3.Implies(z3.And(nodup(s), 0 <= j, j < z3.Length(s)),
                                   z3.IndexOf(s, U(s[j]), 0) == j), patterns=[z3.IndexOf(s, U(s[j]), 0)]))
    A(z3.ForAll([s, x], z3.Implies(z3.Contains(s, U(x)),
                                   z3.And(s[z3.IndexOf(s, U(x), 0)] == x, z3.IndexOf(s, U(x), 0) >= 0,
                                          z3.IndexOf(s, U(x), 0) < z3.Length(s))),
                patterns=[z3.IndexOf(s, U(x), 0)]))
    reg.trust(note)


_load0 = load


def load(reg):          # noqa: F811
    _load0(reg)
    load_seqref(reg)


def axiom_sanity(reg):
    """Vacuity guard for the assumed axiom sets: each set together with concrete witness facts that
    are true in the standard model must not be refutable (a solver answering 'unsat' here means the
    axioms -- or the solver -- are unsound for this fragment, and nothing proved with them counts)."""
    import subprocess, tempfile, os

    def check_set(name):
        def run(table):
            axs = [f for f, _ in reg.axiom_sets.get(name, [])]
            SI = z3.SeqSort(z3.IntSort())
            ks, k, k2 = z3.Const("w_ks", SI), z3.Int("w_k"), z3.Int("w_k2")
            wit = [z3.Contains(ks, z3.Unit(k)), z3.Length(ks) == 2, ks[0] == k, ks[1] == k2, k != k2]
            if "nodup_ref" in reg.ufuns:
                wit.append(reg.ufuns["nodup_ref"](ks))
            res = []
            s = z3.Solver()
            s.set("timeout", 5000)
            for a in axs + wit:
                s.add(a)
            r1 = str(s.check())
            smt = "(set-logic ALL)\n" + s.to_smt2()
            smt = smt.replace("seq.nth_u", "seq.nth").replace("seq.nth_i", "seq.nth")
            fd, path = tempfile.mkstemp(suffix=".smt2")
            os.write(fd, smt.encode())
            os.close(fd)
            try:
                out = subprocess.run(["/usr/bin/cvc5", "--strings-exp", "--tlimit=5000", path], capture_output=True, text=True, timeout=15).stdout
            except Exception:
                out = ""
            finally:
                os.unlink(path)
            r2 = (out.strip().splitlines() or ["?"])[0]
            ok = r1 != "unsat" and r2 != "unsat"
            return [("axiom set '%s' (%d axioms) with concrete witnesses is not refutable" % (name, len(axs)), ok,
                     "z3: %s, cvc5: %s" % (r1, r2))]
        return run
    users = {"seqref": ["C08"], "heap": ["C01"], "jhash": ["C13"], "seqstr": ["C13", "C18", "C16", "C17"]}
    for name, props in users.items():
        reg.ground_obligation("axiom-sanity:" + name, props, check_set(name))
