"""Assumed contracts on dependencies (the trusted base, DESIGN section 4)."""
import z3

from pyvc import sorts as S
from pyvc.sorts import SV, REAL, XREAL, INT, REF, XR
from pyvc.engine import Raise


def load(reg):
    # ---- statistics.NormalDist(0,1).inv_cdf(p): requires 0<p<1 else StatisticsError;
    #      result = Phi^-1(p), uninterpreted, strictly monotone, Phi^-1(0.5)=0
    reg.trust("statistics.NormalDist(mu,sigma).inv_cdf(p): raises StatisticsError unless 0<p<1; "
              "result = mu + sigma*PhiInv(p) with PhiInv uninterpreted, PhiInv(p)>0 iff p>0.5")

    def construct_NormalDist(eng, st, args, kwargs):
        r = S.fresh("normaldist", z3.IntSort())
        sv = SV(REF("NormalDist"), r)
        sv.items = [eng.coerce(a, REAL)[0] for a in args]
        return [(st, sv)]
    reg.specfun("construct_NormalDist", construct_NormalDist)

    def inv_cdf(eng, s, recv, args, kwargs):
        p = eng.coerce(args[0], REAL)[0].t
        phi = reg.ufun("PhiInv", z3.RealSort(), z3.RealSort())
        mu, sigma = recv.items[0].t, recv.items[1].t

        def cont(s2):
            r = phi(p)
            s2.assume(z3.And(z3.Implies(p > 0.5, r > 0), z3.Implies(p < 0.5, r < 0), z3.Implies(p == 0.5, r == 0)))
            return [(s2, SV(REAL, mu + sigma * r))]
        return eng.implicit(s, "StatisticsError", z3.Or(p <= 0, p >= 1), cont)
    reg.specfun("dep_NormalDist_inv_cdf", inv_cdf)
