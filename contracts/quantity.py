"""Sidecar contracts: same-type arithmetic, comparison and re-expression of Quantity (C17, and the refusal clauses of C16).

A Quantity is a float (its SI value) with a display unit.  Model: ghost field g_si = float(self) (a finite real), field
_unit; the class-level unit table `_units` of the receiver's *dynamic* class is an uninterpreted map indexed by the class
id (unit_keys / unit_factors), constrained only by the data invariant that the C17 ground obligations check on the live
tables: the base unit is declared and has factor 1.  The operators are inherited unchanged by all 41 quantity classes, so
each is verified ONCE for a receiver of any subclass (generic receiver); calls on self are dispatched closed-world.

Construction is under contract too (third load() below): Quantity.__new__ / __init__ are verified, and every construction in
the operators (`type(self)(x)`, `newclass(x, unit)`) applies those two contracts; the only assumed step is float.__new__.
"""
import z3

from pyvc import sorts as S
from pyvc.sorts import SV, REF, REAL, STR, INT, Ty, PyObj, MAP
from pyvc.engine import mk_bool


def uid(eng, u):
    """integer id of a unit string (strings in maps are keyed by ids); a string that is literally sof(i) has id i"""
    t = z3.simplify(eng.coerce(u, STR)[0].t)
    probe = S.sof(z3.IntVal(0)).decl().name()
    if z3.is_app(t) and t.num_args() == 1 and t.decl().name() == probe:
        return t.arg(0)
    return S.sid(t)


def load(reg):
    C17, C16 = ["C17"], ["C16"]
    reg.declare_fields("Quantity", g_si="real", _unit="str", ghost=("g_si",))
    KEYS = reg.ufun("unit_keys", z3.IntSort(), z3.SeqSort(z3.IntSort()))
    FACT = reg.ufun("unit_factors", z3.IntSort(), z3.ArraySort(z3.IntSort(), z3.RealSort()))
    BASE = reg.ufun("base_unit", z3.IntSort(), z3.IntSort())
    MT = MAP(STR, REAL)

    def table_facts(eng, st, tid):
        """data invariant of every quantity class (ground obligations UInv of C17): base unit declared, factor 1"""
        qids = [eng.class_id(c) for c in eng.table.subclasses("Quantity") if c != "Quantity"]
        isq = z3.Or(*[tid == i for i in qids]) if qids else z3.BoolVal(False)
        st.assume(z3.Implies(isq, z3.And(z3.Contains(KEYS(tid), z3.Unit(BASE(tid))), z3.Select(FACT(tid), BASE(tid)) == 1)))

    def units_of(eng, o, s):
        if not eng.table.is_subclass(o.ty.cls, "Quantity"):
            return None
        tid = S.typeof(o.t)
        if not eng.spec:
            table_facts(eng, s, tid)
        return eng.map_mk(MT, KEYS(tid), FACT(tid))
    reg.specfun("classattr__units", units_of)

    def baseunit_of(eng, o, s):
        if not eng.table.is_subclass(o.ty.cls, "Quantity"):
            return None
        return SV(STR, S.sof(BASE(S.typeof(o.t))))
    reg.specfun("classattr__baseunit", baseunit_of)
    reg.specfun("quantity_float", lambda eng, v, s: eng.load_field(s, v.t, "Quantity", "g_si"))

    # type(x) of a dynamic value: class id for references, negative codes for the builtin kinds
    def type_of_value(eng, v):
        if v.ty.kind == "obj":
            o = v.t
            tr = S.typeof(PyObj.rval(o))
            # class ids are positive; the builtin kinds have negative codes (an uninterpreted typeof must not collide with them)
            code = z3.If(PyObj.is_O_ref(o), z3.If(tr >= 1, tr, 0),
                         z3.If(PyObj.is_O_int(o), -1, z3.If(PyObj.is_O_bool(o), -2, z3.If(PyObj.is_O_float(o), -3,
                               z3.If(PyObj.is_O_str(o), -4, z3.If(PyObj.is_O_none(o), -5, -6))))))
            return SV(Ty("type"), code)
        codes = {"int": -1, "bool": -2, "real": -3, "xreal": -3, "str": -4, "none": -5}
        if v.ty.kind in codes:
            return SV(Ty("type"), z3.IntVal(codes[v.ty.kind]))
        return None
    if "type_of_value" not in reg.specfuns:
        reg.specfun("type_of_value", lambda eng, v: type_of_value(eng, v) or (_ for _ in ()).throw(
            __import__("pyvc.engine", fromlist=["Unsupported"]).Unsupported("type(%r)" % (v.ty,))))

    # type(q)(x): the assumed construction contract (see module docstring)
    def type_call_ref(eng, s, x, v):
        from pyvc.engine import Unsupported
        if not eng.table.is_subclass(x.ty.cls, "Quantity"):
            raise Unsupported("type(x)(v) for %r" % (x.ty,))
        val = eng.coerce(v, REAL)[0].t
        tid = S.typeof(x.t)
        table_facts(eng, s, tid)
        r = z3.simplify(eng.A0 + s.nalloc)
        s.nalloc = s.nalloc + 1
        s.assume(S.typeof(r) == tid)
        obj = SV(REF("Quantity"), r)
        eng.store_field(s, r, "Quantity", "g_si", SV(REAL, val * z3.Select(FACT(tid), BASE(tid))))
        eng.store_field(s, r, "Quantity", "_unit", SV(STR, S.sof(BASE(tid))))
        return [(s, obj)]
    reg.specfun("type_call_ref", type_call_ref)
    reg.trust("Quantity construction with unit None (`type(q)(x)`): new object of q's class, SI value x * factor(base unit), display "
              "unit = base unit (float.__new__ via Quantity.__new__/__init__; assumed, bounded construction sweep of C17)")
    reg.trust("unit tables: only 'the base unit is declared with factor 1' is used, which is the ground obligation UInv of C17 on the same tree")

    SAME = "isref(other) and sametype(other, self)"
    NEW = ["sametype(result, self)", "result._unit == self._unit", "isfresh(result)"]
    G = dict(generic_receiver=True, for_classes=["Quantity"], modifies=[], axiom_sets=())
    reg.contract("Quantity._val", params={"si": "real"}, returns="ref:Quantity", raises=[],
                 ensures=NEW + ["result.g_si == si"], props=C17, **G)
    reg.contract("Quantity.__add__", params={"other": "obj"}, returns="ref:Quantity",
                 raises=[("ValueError", "not (%s)" % SAME)],
                 ensures=NEW + ["result.g_si == self.g_si + asref(other, 'Quantity').g_si"], props=C17 + C16, **G)
    reg.contract("Quantity.__sub__", params={"other": "obj"}, returns="ref:Quantity",
                 raises=[("ValueError", "not (%s)" % SAME)],
                 ensures=NEW + ["result.g_si == self.g_si - asref(other, 'Quantity').g_si"], props=C17 + C16, **G)
    reg.contract("Quantity.__neg__", params={}, returns="ref:Quantity", raises=[],
                 ensures=NEW + ["result.g_si == -self.g_si"], props=C17, **G)
    reg.contract("Quantity.__abs__", params={}, returns="ref:Quantity", raises=[],
                 ensures=NEW + ["result.g_si == ite(self.g_si >= 0, self.g_si, -self.g_si)"], props=C17, **G)
    reg.contract("Quantity.__eq__", params={"other": "obj"}, returns="bool", raises=[], pure=True,
                 ensures=["result == (%s and self.g_si == asref(other, 'Quantity').g_si)" % SAME], props=C17, **G)
    reg.contract("Quantity.__ne__", params={"other": "obj"}, returns="bool", raises=[], pure=True,
                 ensures=["result == (not (%s) or self.g_si != asref(other, 'Quantity').g_si)" % SAME], props=C17, **G)
    for op, rel in (("__lt__", "<"), ("__le__", "<="), ("__gt__", ">"), ("__ge__", ">=")):
        reg.contract("Quantity.%s" % op, params={"other": "obj"}, returns="bool", pure=True,
                     raises=[("TypeError", "not (%s)" % SAME)],
                     ensures=["result == (self.g_si %s asref(other, 'Quantity').g_si)" % rel], props=C17 + C16, **G)
    reg.contract("Quantity.as_unit", params={"newunit": "str"}, returns="ref:Quantity",
                 raises=[("ValueError", "not has_unit(self, newunit)")],
                 # re-expression copies the SI value: bit-identical, whatever the old and the new unit are
                 ensures=["sametype(result, self)", "isfresh(result)", "result.g_si == self.g_si", "result._unit == newunit"],
                 props=C17, **G)
    reg.contract("Quantity.si", params={}, returns="real", raises=[], pure=True, ensures=["result == self.g_si"], props=C17, **G)
    reg.contract("Quantity.unit", params={}, inline=True)

    reg.specfun("has_unit", lambda eng, x, u: mk_bool(z3.Contains(KEYS(S.typeof(x.t)), z3.Unit(uid(eng, u)))))


_load_q0 = load


def load(reg):      # noqa: F811
    _load_q0(reg)
    C16, C17 = ["C16"], ["C17"]
    G = dict(generic_receiver=True, for_classes=["Quantity"], modifies=[], axiom_sets=())
    NEW = ["sametype(result, self)", "result._unit == self._unit", "isfresh(result)"]
    # scaling by a plain number (the first branch of * and /); products and quotients of two quantities go through the
    # class-object keyed conversion tables and stay with the table invariants + BOUNDED sweeps of C16
    SCALAR = "not isref(other) and (typeis_builtin(other, 'float') or typeis_builtin(other, 'int'))"
    OQ = "asref(other, 'Quantity')"
    for op, sym, has, cls in (("__mul__", "*", "has_mul", "mul_class"), ("__truediv__", "/", "has_div", "div_class")):
        NAMED = "isref(other) and instance(other, 'Quantity') and %s(self, other)" % has
        reg.contract("Quantity.%s" % op, params={"other": "obj"}, returns="ref:Quantity",
                     # scope: scaling by a plain number, or a pair of classes with an entry in the conversion table (the generic
                     # SI fall-back for pairs without an entry stays with the BOUNDED pair sweep)
                     requires=["(%s and isfin(other)) or (%s)" % (SCALAR, NAMED)],
                     raises=[("ZeroDivisionError", "(%s and val(num(other)) == 0) or (%s and %s.g_si == 0)" % (SCALAR, NAMED, OQ))]
                     if op == "__truediv__" else [],
                     ensures=["isfresh(result)",
                              "implies(%s, sametype(result, self) and result._unit == self._unit"
                              " and result.g_si == self.g_si %s val(num(other)))" % (SCALAR, sym),
                              # named result: the class the table prescribes, in its base unit, SI value = product / quotient
                              "implies(%s, class_of(result) == %s(self, other) and result.g_si == self.g_si %s %s.g_si)"
                              % (NAMED, cls, sym, OQ)],
                     props=C16 + C17, **G)

    # isinstance(v, T) for a class object T held in a variable or field (closed world over the class table)
    def isinstance_of_type(eng, v, tv):
        conj = []
        for c in eng.table.classes:
            conj.append(z3.And(tv.t == eng.class_id(c), eng.isinstance_sv(v, c)))
        o = eng.to_obj(v)
        conj += [z3.And(tv.t == -1, z3.Or(PyObj.is_O_int(o), PyObj.is_O_bool(o))), z3.And(tv.t == -2, PyObj.is_O_bool(o)),
                 z3.And(tv.t == -3, eng.isinstance_sv(v, "float") if v.ty.kind == "obj" else z3.BoolVal(v.ty.kind in ("real", "xreal"))),
                 z3.And(tv.t == -4, PyObj.is_O_str(o))]
        return mk_bool(z3.Or(*conj))
    reg.specfun("isinstance_of_type", isinstance_of_type)
    reg.specfun("isinstance_of", lambda eng, v, tv: isinstance_of_type(eng, v, tv))
    reg.specfun("is_quantity_class", lambda eng, tv: mk_bool(z3.Or(*[tv.t == eng.class_id(c) for c in eng.table.subclasses("Quantity")
                                                                    if c != "Quantity"])))

    # ---- named products and quotients: type(self)._mul / _div are tables from class objects to class objects
    import z3 as _z3
    TT = S.parse_type("map[type,type]")
    MULK = reg.ufun("mul_keys", _z3.IntSort(), _z3.SeqSort(_z3.IntSort()))
    MULV = reg.ufun("mul_vals", _z3.IntSort(), _z3.ArraySort(_z3.IntSort(), _z3.IntSort()))
    DIVK = reg.ufun("div_keys", _z3.IntSort(), _z3.SeqSort(_z3.IntSort()))
    DIVV = reg.ufun("div_vals", _z3.IntSort(), _z3.ArraySort(_z3.IntSort(), _z3.IntSort()))
    KEYS = reg.ufun("unit_keys", _z3.IntSort(), _z3.SeqSort(_z3.IntSort()))
    FACT = reg.ufun("unit_factors", _z3.IntSort(), _z3.ArraySort(_z3.IntSort(), _z3.RealSort()))
    BASE = reg.ufun("base_unit", _z3.IntSort(), _z3.IntSort())

    def qids(eng):
        return [eng.class_id(c) for c in eng.table.subclasses("Quantity") if c != "Quantity"]

    def table_wf(eng, st, tid):
        """data invariant used: the entries of _mul / _div of a quantity class are quantity classes (TInv checks every entry)"""
        k = _z3.Int("tw_k")
        isq = lambda t: _z3.Or(*[t == i for i in qids(eng)])
        for K, V in ((MULK, MULV), (DIVK, DIVV)):
            st.assume(_z3.ForAll([k], _z3.Implies(_z3.Contains(K(tid), _z3.Unit(k)), _z3.And(isq(k), isq(_z3.Select(V(tid), k))))))
    reg.specfun("typeattr__mul", lambda eng, tv, s: (table_wf(eng, s, tv.t) if not eng.spec else None) or eng.map_mk(TT, MULK(tv.t), MULV(tv.t)))
    reg.specfun("typeattr__div", lambda eng, tv, s: (table_wf(eng, s, tv.t) if not eng.spec else None) or eng.map_mk(TT, DIVK(tv.t), DIVV(tv.t)))
    reg.specfun("typeattr__baseunit", lambda eng, tv, s: SV(STR, S.sof(BASE(tv.t))))

    def type_value_call(eng, s, tv, args, kwargs):
        """newclass(value, unit): assumed construction contract -- SI value = value * factor(unit) for a declared unit"""
        from pyvc.engine import Unsupported
        if len(args) != 2 or kwargs:
            raise Unsupported("construction through a class object with %d arguments" % len(args))
        val = eng.coerce(args[0], REAL)[0].t
        unit = uid(eng, args[1])
        tid = tv.t
        isq = _z3.Or(*[tid == i for i in qids(eng)])
        s.assume(_z3.Implies(isq, _z3.And(_z3.Contains(KEYS(tid), _z3.Unit(BASE(tid))), _z3.Select(FACT(tid), BASE(tid)) == 1)))
        bad = _z3.Not(_z3.Contains(KEYS(tid), _z3.Unit(unit)))

        def cont(s2):
            r = _z3.simplify(eng.A0 + s2.nalloc)
            s2.nalloc = s2.nalloc + 1
            s2.assume(S.typeof(r) == tid)
            eng.store_field(s2, r, "Quantity", "g_si", SV(REAL, val * _z3.Select(FACT(tid), unit)))
            eng.store_field(s2, r, "Quantity", "_unit", SV(STR, S.sof(unit)))
            return [(s2, SV(REF("Quantity"), r))]
        return eng.implicit(s, "ValueError", bad, cont)
    reg.specfun("type_value_call", type_value_call)
    reg.trust("Quantity construction with a unit (`cls(value, unit)`): ValueError for an undeclared unit, otherwise a new object of "
              "that class with SI value value * factor(unit) (assumed, bounded construction sweep); _mul/_div entries map quantity "
              "classes to quantity classes (TInv ground obligations)")
    reg.specfun("has_mul", lambda eng, x, y: mk_bool(_z3.Contains(MULK(S.typeof(x.t)), _z3.Unit(S.typeof(PyObj.rval(eng.to_obj(y)))))))
    reg.specfun("has_div", lambda eng, x, y: mk_bool(_z3.Contains(DIVK(S.typeof(x.t)), _z3.Unit(S.typeof(PyObj.rval(eng.to_obj(y)))))))
    reg.specfun("mul_class", lambda eng, x, y: SV(Ty("type"), _z3.Select(MULV(S.typeof(x.t)), S.typeof(PyObj.rval(eng.to_obj(y))))))
    reg.specfun("div_class", lambda eng, x, y: SV(Ty("type"), _z3.Select(DIVV(S.typeof(x.t)), S.typeof(PyObj.rval(eng.to_obj(y))))))
    reg.specfun("class_of", lambda eng, x: SV(Ty("type"), S.typeof(x.t)))


_load_q1 = load


def load(reg):      # noqa: F811
    """Construction under contract: Quantity.__new__ (value * factor of the unit, ValueError for an undeclared unit or a value that
    is not exactly float / int when a unit is given) and Quantity.__init__ (display unit).  The only assumed step left is
    float.__new__ itself: a new object of the requested class whose float value is the argument."""
    _load_q1(reg)
    import z3 as _z3
    C17 = ["C17"]
    KEYS = reg.ufun("unit_keys", _z3.IntSort(), _z3.SeqSort(_z3.IntSort()))
    FACT = reg.ufun("unit_factors", _z3.IntSort(), _z3.ArraySort(_z3.IntSort(), _z3.RealSort()))
    BASE = reg.ufun("base_unit", _z3.IntSort(), _z3.IntSort())
    MT = MAP(STR, REAL)

    def qids(eng):
        return [eng.class_id(c) for c in eng.table.subclasses("Quantity") if c != "Quantity"]

    def base_fact(eng, st, tid):
        isq = _z3.Or(*[tid == i for i in qids(eng)])
        st.assume(_z3.Implies(isq, _z3.And(_z3.Contains(KEYS(tid), _z3.Unit(BASE(tid))), _z3.Select(FACT(tid), BASE(tid)) == 1)))

    def t_units(eng, tv, s):
        if not eng.spec:
            base_fact(eng, s, tv.t)
        return eng.map_mk(MT, KEYS(tv.t), FACT(tv.t))
    reg.specfun("typeattr__units", t_units)

    # float.__new__(cls, x): the one assumed step
    def super_new(eng, s, args, kwargs):
        tv, val = args[0], eng.coerce(args[1], REAL)[0].t
        r = _z3.simplify(eng.A0 + s.nalloc)
        s.nalloc = s.nalloc + 1
        s.assume(S.typeof(r) == tv.t)
        eng.store_field(s, r, "Quantity", "g_si", SV(REAL, val))
        return [(s, SV(REF("Quantity"), r))]
    reg.specfun("super_new", super_new)
    reg.trust("float.__new__(cls, x) returns a new object of class cls whose float value is x (builtin; assumed)")

    reg.specfun("t_has_unit", lambda eng, tv, u: mk_bool(_z3.Contains(KEYS(tv.t), _z3.Unit(uid(eng, u)))))
    reg.specfun("t_factor", lambda eng, tv, u: SV(REAL, _z3.Select(FACT(tv.t), uid(eng, u))))
    reg.specfun("t_base_factor", lambda eng, tv: SV(REAL, _z3.Select(FACT(tv.t), BASE(tv.t))))
    reg.specfun("t_baseunit", lambda eng, tv: SV(STR, S.sof(BASE(tv.t))))
    EXACT = "(typeis_builtin(value, 'float') or typeis_builtin(value, 'int'))"
    UNIT = "strval(unit)"
    reg.contract("Quantity.__new__", params={"cls": "type", "value": "obj", "unit": "obj"}, returns="ref:Quantity",
                 requires=["isnone(unit) or isstr(unit)", "not isref(value) and isnum(value) and isfin(value)"],
                 raises=[("ValueError", "not isnone(unit) and (not t_has_unit(cls, %s) or not %s)" % (UNIT, EXACT))],
                 ensures=["isfresh(result)", "class_of(result) == cls",
                          # the SI value is the value times the factor of the unit (of the base unit when none is given)
                          "implies(isnone(unit), result.g_si == val(num(value)) * t_base_factor(cls))",
                          "implies(not isnone(unit), result.g_si == val(num(value)) * t_factor(cls, %s))" % UNIT],
                 # (the look-up cls._units[cls._baseunit] goes through the string-id encoding: needs sid(sof(i)) = i)
                 modifies=[], for_classes=["Quantity"], props=C17, axiom_sets=("seqstr",))
    reg.contract("Quantity.__init__", params={"value": "obj", "unit": "obj"},
                 requires=["isnone(unit) or isstr(unit)"], raises=[],
                 ensures=["implies(isnone(unit), self._unit == t_baseunit(class_of(self)))",
                          "implies(not isnone(unit), self._unit == %s)" % UNIT],
                 modifies=["self._unit"], generic_receiver=True, for_classes=["Quantity"], props=C17, axiom_sets=())

    # construction = __new__ then __init__, both by contract (replaces the assumed construction hooks above)
    def construct(eng, s, tv, value, unit):
        from pyvc import calls
        from pyvc.engine import Raise
        fnew, finit = eng.table.get("Quantity.__new__"), eng.table.get("Quantity.__init__")
        base_fact(eng, s, tv.t)         # data invariant of the class being instantiated (UInv): base unit declared, factor 1
        outs = []
        for s1, r in calls.call_function(eng, fnew, None, [tv, value, unit], {}, s):
            if isinstance(r, Raise):
                outs.append((s1, r))
                continue
            for s2, r2 in calls.call_function(eng, finit, r, [value, unit], {}, s1):
                outs.append((s2, r2 if isinstance(r2, Raise) else r))
        return outs
    from pyvc.engine import mk_none
    reg.specfun("type_call_ref", lambda eng, s, x, v: construct(eng, s, SV(Ty("type"), S.typeof(x.t)), v, mk_none())
                if eng.table.is_subclass(x.ty.cls, "Quantity") else (_ for _ in ()).throw(
                    __import__("pyvc.engine", fromlist=["Unsupported"]).Unsupported("type(x)(v) for %r" % (x.ty,))))

    def type_call_ref2(eng, s, x, v, u):
        from pyvc.engine import Unsupported
        if x.ty.kind != "ref" or not eng.table.is_subclass(x.ty.cls, "Quantity"):
            raise Unsupported("type(x)(v, u) for %r" % (x.ty,))
        return construct(eng, s, SV(Ty("type"), S.typeof(x.t)), v, u)
    reg.specfun("type_call_ref2", type_call_ref2)

    def type_value_call(eng, s, tv, args, kwargs):
        from pyvc.engine import Unsupported
        if not (1 <= len(args) <= 2) or kwargs:
            raise Unsupported("construction through a class object with %d arguments" % len(args))
        return construct(eng, s, tv, args[0], args[1] if len(args) > 1 else mk_none())
    reg.specfun("type_value_call", type_value_call)


_load_q2 = load


def load(reg):      # noqa: F811
    """displayvalue, construction by class name in lemma programs, and the round-trip lemmas of C17."""
    _load_q2(reg)
    import z3 as _z3
    from pyvc.engine import mk_none
    C17 = ["C17"]
    KEYS = reg.ufun("unit_keys", _z3.IntSort(), _z3.SeqSort(_z3.IntSort()))
    FACT = reg.ufun("unit_factors", _z3.IntSort(), _z3.ArraySort(_z3.IntSort(), _z3.RealSort()))
    reg.specfun("factor_of", lambda eng, x, u: SV(REAL, _z3.Select(FACT(S.typeof(x.t)), uid(eng, u))))
    # object invariant of a quantity: its display unit is a declared unit of its class with a non-zero factor (established by
    # __new__/__init__/as_unit/_val; "every factor is a finite non-zero number" is a UInv ground obligation)
    QWF = "has_unit(self, self._unit) and factor_of(self, self._unit) != 0"
    reg.contract("Quantity.displayvalue", params={}, returns="real", requires=[QWF], raises=[], pure=True,
                 ensures=["result * factor_of(self, self._unit) == self.g_si"],
                 generic_receiver=True, for_classes=["Quantity"], modifies=[], props=C17, axiom_sets=())
    tvc = reg.specfuns["type_value_call"]
    for cname in [c for c in reg.table.subclasses("Quantity") if c != "Quantity"]:
        reg.specfun("construct_" + cname,
                    (lambda cn: lambda eng, st, args, kwargs: tvc(eng, st, SV(Ty("type"), _z3.IntVal(eng.class_id(cn))), list(args), kwargs))(cname))
    reg.specfun("unit_declared", lambda eng, x, u: mk_bool(_z3.Contains(KEYS(S.typeof(x.t)), _z3.Unit(uid(eng, u)))))
    # constructing stores value * factor, reports the original value (over the reals) and the chosen unit; re-expressing keeps the
    # SI value and reports value * f(u) / f(u2); comparisons of re-expressed quantities are those of the originals
    reg.lemma("quantity_construct_display_reexpress", """
def rt(v, w, u, u2, probe):
    assume(typeis_builtin(v, 'float') and isfin(v) and typeis_builtin(w, 'float') and isfin(w))
    assume(sametype(probe, probe) and unit_declared(probe, u) and unit_declared(probe, u2))
    assume(factor_of(probe, u) != 0 and factor_of(probe, u2) != 0)
    x = type(probe)(v, u)
    assert x.g_si == val(num(v)) * factor_of(probe, u) and x._unit == u and sametype(x, probe), "construction stores value * factor and the unit"
    d = x.displayvalue
    assert d == val(num(v)), "the display value is the value entered (over the reals)"
    y = x.as_unit(u2)
    assert y.g_si == x.g_si and y._unit == u2, "re-expression keeps the SI value"
    z = type(probe)(w, u2)
    a = x < z
    b = y < z
    assert a == b, "ordering does not depend on the display unit"
    s = x + z
    assert s.g_si == x.g_si + z.g_si and s._unit == u, "a sum keeps the left operand's unit"
""", params={"v": "obj", "w": "obj", "u": "str", "u2": "str", "probe": "ref:Quantity"}, props=C17, axiom_sets=())


_load_q3 = load


def load(reg):      # noqa: F811
    """Generic SI values: SI construction, products / quotients of SI values and quantities (signature arithmetic), asSI, as_quantity,
    and the fall-back branches of Quantity.__mul__/__truediv__ for class pairs without a table entry."""
    _load_q3(reg)
    import z3 as _z3
    from pyvc.engine import mk_none, Unsupported
    from pyvc.sorts import SEQ, INT as _INT
    C16 = ["C16"]
    AXS = ()
    reg.declare_fields("SI", g_si="real", _sisig="seq[int]", _unit="str", ghost=("g_si",))
    SIGT = SEQ(_INT)
    CSIG = reg.ufun("class_sig", _z3.IntSort(), _z3.SeqSort(_z3.IntSort()))
    PARSE = reg.ufun("parse_sig", _z3.StringSort(), _z3.SeqSort(_z3.IntSort()))

    def qids(eng):
        return [eng.class_id(c) for c in eng.table.subclasses("Quantity") if c != "Quantity"]

    def sig_fact(eng, st, tid):
        # data invariant (TInv: every class's sisig() is its _sidict over the nine SI units)
        st.assume(_z3.Implies(_z3.Or(*[tid == i for i in qids(eng)]), _z3.Length(CSIG(tid)) == 9))

    def class_sig_of(eng, st, tid):
        if st is not None and not eng.spec:
            sig_fact(eng, st, tid)
        return SV(SIGT, CSIG(tid), const="fresh")
    # Quantity.sisig (a classmethod reading the class table): its value is the class's signature -- by hook, for instances and
    # for class objects; the function body itself is covered by the TInv ground obligation on the live classes
    reg.specfun("dep_Quantity_sisig", lambda eng, s, recv, args, kwargs: [(s, class_sig_of(eng, s, S.typeof(recv.t)))])
    reg.specfun("typemethod_sisig", lambda eng, s, tv, args, kwargs: [(s, class_sig_of(eng, s, tv.t))])
    reg.trust("Quantity.sisig() (classmethod over _sidict) denotes the class signature, a list of nine exponents: the TInv ground "
              "obligations check sisig() against _sidict on every live class")
    reg.specfun("class_sig", lambda eng, tv: SV(SIGT, CSIG(tv.t)))
    _unused = (lambda eng, x: SV(SIGT, _z3.If(S.typeof(_ref(eng, x)) == eng.class_id("SI"),
                                                        _z3.Select(eng._spec_state.heap["SI._sisig"], _ref(eng, x)) if False else CSIG(S.typeof(_ref(eng, x))),
                                                        CSIG(S.typeof(_ref(eng, x))))))
    reg.specfun("issubclass_of", lambda eng, tv, cname: mk_bool(_z3.Or(*[tv.t == eng.class_id(c) for c in eng.table.subclasses(cname)]))
                if tv.ty.kind == "type" else mk_bool(False))

    # float.__new__ for SI as well
    old_super_new = reg.specfuns["super_new"]

    def super_new(eng, s, args, kwargs):
        if eng.cur_class != "SI":
            return old_super_new(eng, s, args, kwargs)
        tv, val = args[0], eng.coerce(args[1], REAL)[0].t
        r = _z3.simplify(eng.A0 + s.nalloc)
        s.nalloc = s.nalloc + 1
        s.assume(S.typeof(r) == tv.t)
        eng.store_field(s, r, "SI", "g_si", SV(REAL, val))
        return [(s, SV(REF("SI"), r))]
    reg.specfun("super_new", super_new)
    reg.specfun("quantity_float", lambda eng, v, s: eng.load_field(s, v.t, "SI" if v.ty.cls == "SI" else "Quantity", "g_si"))

    EXACT = "(typeis_builtin(value, 'float') or typeis_builtin(value, 'int'))"
    ZEROS = "[0, 0, 0, 0, 0, 0, 0, 0, 0]"
    reg.contract("SI.__new__", params={"cls": "type", "value": "obj", "unit": "obj"}, returns="ref:SI",
                 requires=["not isref(value)", "not isnum(value) or isfin(value)"],
                 raises=[("ValueError", "not %s" % EXACT)],
                 ensures=["isfresh(result)", "class_of(result) == cls", "result.g_si == val(num(value))"],
                 modifies=[], for_classes=["SI"], props=C16, axiom_sets=AXS)
    reg.contract("SI.str_to_sisig", abstract=True, params={"unitstr": "str"}, returns="seq[int]",
                 ensures=["len(result) == 9", "result == parse_sig(unitstr)"], may_raise=[("ValueError", "True")], modifies=[], pure=True,
                 note="the unit-string parser is not verified (BOUNDED round-trip sweep)")
    reg.contract("SI.siunit", abstract=True, params={"div": "obj", "hat": "obj", "dot": "obj"}, returns="str", modifies=[], pure=True,
                 note="the unit-string printer is not verified (BOUNDED round-trip sweep)")
    reg.specfun("parse_sig", lambda eng, u: SV(SIGT, PARSE(eng.coerce(u, STR)[0].t)))
    reg.contract("SI.__init__", params={"value": "obj", "unit": "str"},
                 raises=[], may_raise=[("ValueError", "unit != ''")], on_raise="any",
                 ensures=["len(self._sisig) == 9", "implies(unit == '', self._sisig == %s)" % ZEROS,
                          "implies(unit != '', self._sisig == parse_sig(unit))"],
                 modifies=["self._sisig", "self._unit"], for_classes=["SI"], props=C16, axiom_sets=AXS)

    # SI(...) by class name: __new__ then __init__, both by contract
    def construct_si(eng, s, args, kwargs):
        from pyvc import calls
        from pyvc.engine import Raise
        fnew, finit = eng.table.get("SI.__new__"), eng.table.get("SI.__init__")
        value = args[0]
        unit = args[1] if len(args) > 1 else SV(STR, _z3.StringVal(""))
        tv = SV(Ty("type"), _z3.IntVal(eng.class_id("SI")))
        outs = []
        for s1, r in calls.call_function(eng, fnew, None, [tv, value, unit], {}, s):
            if isinstance(r, Raise):
                outs.append((s1, r))
                continue
            for s2, r2 in calls.call_function(eng, finit, r, [value, unit], {}, s1):
                outs.append((s2, r2 if isinstance(r2, Raise) else r))
        return outs
    reg.specfun("construct_SI", construct_si)

    SIWF = "len(self._sisig) == 9"
    reg.contract("SI._val", params={"si": "real"}, returns="ref:SI", requires=[SIWF], raises=[],
                 ensures=["isfresh(result)", "typeis(result, 'SI')", "result.g_si == si", "result._sisig == self._sisig", "result._unit == self._unit"],
                 modifies=[], for_classes=["SI"], props=C16, axiom_sets=AXS)
    reg.contract("Quantity.asSI", params={}, returns="ref:SI", raises=[],
                 ensures=["isfresh(result)", "typeis(result, 'SI')", "result.g_si == self.g_si", "result._sisig == class_sig(class_of(self))",
                          "len(result._sisig) == 9"],
                 modifies=[], generic_receiver=True, for_classes=["Quantity"], props=C16, axiom_sets=AXS)


_load_q4 = load


def load(reg):      # noqa: F811
    """SI products / quotients, as_quantity, and Quantity * / over ALL class pairs (named table entry or generic SI result)."""
    _load_q4(reg)
    C16, C17 = ["C16"], ["C17"]
    AXS = ()
    SIWF = "len(self._sisig) == 9"
    SCALAR = "not isref(other) and (typeis_builtin(other, 'float') or typeis_builtin(other, 'int'))"
    OSI = "isref(other) and typeis(other, 'SI') and len(asref(other, 'SI')._sisig) == 9"
    # (an instance of one of the 41 concrete classes: the generic base itself is never instantiated)
    OQ = "isref(other) and instance(other, 'Quantity') and is_quantity_class(class_of(asref(other, 'Quantity')))"
    # the signature and SI value of the right operand, whichever kind it is
    OSIG = "ite(%s, asref(other, 'SI')._sisig, class_sig(class_of(asref(other, 'Quantity'))))" % "isref(other) and typeis(other, 'SI')"
    OVAL = "ite(%s, asref(other, 'SI').g_si, asref(other, 'Quantity').g_si)" % "isref(other) and typeis(other, 'SI')"
    for op, sym, sgn in (("__mul__", "*", "+"), ("__truediv__", "/", "-")):
        reg.contract("SI.%s" % op, params={"other": "obj"}, returns="ref:SI",
                     requires=[SIWF, "(%s and isfin(other)) or (%s) or (%s)" % (SCALAR, OSI, OQ)],
                     raises=([("ZeroDivisionError", "(%s and val(num(other)) == 0) or (not (%s) and %s == 0)" % (SCALAR, SCALAR, OVAL))]
                             if op == "__truediv__" else []),
                     ensures=["isfresh(result)", "typeis(result, 'SI')", "len(result._sisig) == 9",
                              "implies(%s, result.g_si == self.g_si %s val(num(other)) and result._sisig == self._sisig)" % (SCALAR, sym),
                              # generic result: SI value = product / quotient, signature = elementwise sum / difference
                              "implies(not (%s), result.g_si == self.g_si %s %s and forall('i:int', implies(0 <= i and i < 9,"
                              " result._sisig[i] == self._sisig[i] %s (%s)[i])))" % (SCALAR, sym, OVAL, sgn, OSIG)],
                     modifies=[], for_classes=["SI"], props=C16, axiom_sets=AXS)
    # a generic SI value converts to a named quantity exactly when the signatures match
    reg.contract("SI.as_quantity", params={"quantity": "type"}, returns="ref:Quantity",
                 # (any class object except the generic base Quantity itself, which has no unit table)
                 requires=[SIWF, "is_quantity_class(quantity) or not is_quantity_class_or_base(quantity)"],
                 raises=[("TypeError", "not is_quantity_class_or_base(quantity)"),
                         ("ValueError", "is_quantity_class_or_base(quantity) and class_sig(quantity) != self._sisig")],
                 ensures=["isfresh(result)", "class_of(result) == quantity", "result.g_si == self.g_si"],
                 modifies=[], for_classes=["SI"], props=C16, axiom_sets=AXS)
    import z3 as _z3
    from pyvc.engine import mk_bool as _mkb
    reg.specfun("is_quantity_class_or_base", lambda eng, tv: _mkb(_z3.Or(*[tv.t == eng.class_id(c) for c in eng.table.subclasses("Quantity")])))

    # Quantity * / over every class pair: table entry -> named result (above); no entry -> generic SI result
    G = dict(generic_receiver=True, for_classes=["Quantity"], modifies=[], axiom_sets=AXS)
    NEW = ["sametype(result, self)", "result._unit == self._unit", "isfresh(result)"]
    for op, sym, sgn, has, cls in (("__mul__", "*", "+", "has_mul", "mul_class"), ("__truediv__", "/", "-", "has_div", "div_class")):
        NAMED = "(%s and %s(self, other))" % (OQ, has)
        GENERIC = "((%s and not %s(self, other)) or (%s))" % (OQ, has, OSI)
        reg.contract("Quantity.%s" % op, params={"other": "obj"}, returns="obj",
                     requires=["(%s and isfin(other)) or (%s) or (%s)" % (SCALAR, OQ, OSI)],
                     raises=([("ZeroDivisionError", "(%s and val(num(other)) == 0) or (not (%s) and %s == 0)" % (SCALAR, SCALAR, OVAL))]
                             if op == "__truediv__" else []),
                     ensures=["isref(result)",
                              "implies(%s, sametype(result, self) and asref(result, 'Quantity')._unit == self._unit"
                              " and asref(result, 'Quantity').g_si == self.g_si %s val(num(other)))" % (SCALAR, sym),
                              "implies(%s, class_of(asref(result, 'Quantity')) == %s(self, other)"
                              " and asref(result, 'Quantity').g_si == self.g_si %s %s)" % (NAMED, cls, sym, OVAL),
                              # no table entry: a generic SI value whose signature is the sum / difference of the operands' signatures
                              "implies(%s, typeis(result, 'SI') and asref(result, 'SI').g_si == self.g_si %s %s"
                              " and forall('i:int', implies(0 <= i and i < 9, asref(result, 'SI')._sisig[i] =="
                              " class_sig(class_of(self))[i] %s (%s)[i])))" % (GENERIC, sym, OVAL, sgn, OSIG)],
                     props=C16 + C17, **G)
