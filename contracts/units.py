"""Sidecar for the quantity tables (properties C16, C17): data invariants of the *live* module.

The conversion tables (_mul, _div, _sidict, _units, _displayunits, _descriptions, __all__) are data of
the real module: every run imports /repo's pydsol.core.units in a child interpreter
(/venv/bin/python) and dumps the class attributes (this includes the module-level loop that fills
_mul/_div for Dimensionless); nothing is transcribed.  Each table entry / unit yields one ground
obligation, decided by evaluation -- exhaustive over the finite configuration space
(41 classes, all table entries, all declared units).
"""
import json
import os
import subprocess
from fractions import Fraction

DUMP = r'''
import json, math, sys
import pydsol.core.units as u
out = {"classes": {}, "SIUNITS": list(u.SI.SIUNITS), "all": list(u.__all__),
       "all_missing": [n for n in u.__all__ if not hasattr(u, n)], "quantities": [q.__name__ for q in u.QUANTITIES]}
for q in u.QUANTITIES:
    d = {"baseunit": q._baseunit,
         "units": {k: (v if isinstance(v, (int, float)) and math.isfinite(v) else repr(v)) for k, v in q._units.items()},
         "units_repr": {k: repr(v) for k, v in q._units.items()},
         "displayunits": {k: (v if isinstance(v, str) else {"NOTSTR": repr(v)}) for k, v in q._displayunits.items()},
         "descriptions": dict(getattr(q, "_descriptions", {})),
         "sidict": dict(q._sidict), "sisig": list(q.sisig()),
         "mul": {k.__name__: v.__name__ for k, v in q._mul.items()},
         "div": {k.__name__: v.__name__ for k, v in q._div.items()}}
    out["classes"][q.__name__] = d
# a few semantic probes of the real operators for every ordered pair (bounded stand-in data)
probe = {}
for a in u.QUANTITIES:
    for b in u.QUANTITIES:
        x, y = a(5.0), b(3.0)
        for op, f in (("mul", lambda p, q_: p * q_), ("div", lambda p, q_: p / q_)):
            try:
                r = f(x, y)
                sig = r.sisig() if hasattr(r, "sisig") else None
                probe["%s %s %s" % (a.__name__, op, b.__name__)] = [type(r).__name__, float(r), list(sig)]
            except Exception as e:
                probe["%s %s %s" % (a.__name__, op, b.__name__)] = ["EXC", type(e).__name__, str(e)[:60]]
out["probe"] = probe
alias_viol = []
alias_checks = 0
for a in u.QUANTITIES:
    for b in u.QUANTITIES[::5]:
        for mk_left in (lambda: a(3.0), lambda: a(3.0).asSI() if hasattr(a(3.0), "asSI") else a(3.0)):
            try:
                x, y = mk_left(), b(2.0)
                sx, sy, vx, vy = list(x.sisig()), list(y.sisig()), float(x), float(y)
                for op, f, sign in (("*", lambda p, q_: p * q_, 1), ("/", lambda p, q_: p / q_, -1)):
                    alias_checks += 1
                    r1 = f(x, y)
                    s1 = list(r1.sisig())
                    r2 = f(x, b(5.0))
                    want = [i + sign * j for i, j in zip(sx, sy)]
                    if s1 != want or list(r2.sisig()) != want or list(r1.sisig()) != want:
                        alias_viol.append("%s %s %s with a re-used left operand (%s): signatures %s then %s, first result now %s, expected %s"
                                          % (a.__name__, op, b.__name__, type(x).__name__, s1, list(r2.sisig()), list(r1.sisig()), want))
                    if list(x.sisig()) != sx or list(y.sisig()) != sy or float(x) != vx or float(y) != vy:
                        alias_viol.append("%s %s %s modified an operand (%s left operand)" % (a.__name__, op, b.__name__, type(x).__name__))
            except Exception as e:
                alias_viol.append("%s op %s: %s: %s" % (a.__name__, b.__name__, type(e).__name__, e))
out["alias_checks"] = alias_checks
out["alias_violations"] = alias_viol[:20]
out["alias_violation_count"] = len(alias_viol)
# bounded semantic sweep of construction / conversion / same-type arithmetic for every class and every unit
viol = []
nchecks = 0
vals = [0.0, -0.0, 1.5, -2.0, 3, 1e-9]
for q in u.QUANTITIES:
    units = list(q._units)
    for i, un in enumerate(units):
        f = q._units[un]
        if not isinstance(f, (int, float)):
            continue
        for v in vals:
            nchecks += 1
            try:
                x = q(v, un)
                if x.si != v * f or x.unit != un:
                    viol.append("%s(%r,%r): si %r unit %r" % (q.__name__, v, un, x.si, x.unit))
                if abs(x.displayvalue - v) > 1e-9 * max(1.0, abs(v)):
                    viol.append("%s(%r,%r).displayvalue = %r" % (q.__name__, v, un, x.displayvalue))
                other = units[(i + 1) % len(units)]
                y = x.as_unit(other)
                if y.si != x.si or y.unit != other or type(y) is not q:
                    viol.append("%s(%r,%r).as_unit(%r): si %r unit %r" % (q.__name__, v, un, other, y.si, y.unit))
                z = q(2.0, other)
                z2 = q(20.0, un)        # same unit as x: the result must still be the sum / difference of the SI values
                for name, r, exp in (("+", x + z, x.si + z.si), ("-", x - z, x.si - z.si), ("neg", -x, -x.si), ("abs", abs(x), abs(x.si)),
                                     ("+same-unit", x + z2, x.si + z2.si), ("-same-unit", x - z2, x.si - z2.si),
                                     ("+same-unit", q(v + 10, un) + z2, q(v + 10, un).si + z2.si), ("-same-unit", q(1, un) - q(3, un), q(1, un).si - q(3, un).si)):
                    if r.si != exp or r.unit != un or type(r) is not q:
                        viol.append("%s(%r,%r) %s %s(2.0,%r): si %r (exp %r) unit %r (exp %r)" % (q.__name__, v, un, name, q.__name__, other, r.si, exp, r.unit, un))
                if (x == z) != (x.si == z.si) or (x < z) != (x.si < z.si) or (x >= z) != (x.si >= z.si) or (x != z) != (x.si != z.si):
                    viol.append("%s(%r,%r) comparisons with %s(2.0,%r) disagree with SI values" % (q.__name__, v, un, q.__name__, other))
                str(x)
                # re-expressing a quantity that was itself re-expressed or computed (its SI value is not of the form
                # value * factor of its current unit) in ANY unit -- the same one and alias spellings included --
                # leaves the SI value bit-identical
                for w0 in (q(v * 3.4 + 0.1, un).as_unit(other), q(v + 1.0 / 3.0, un) + z, q(0.7, other) - q(v, un)):
                    for t in units:
                        if not isinstance(q._units[t], (int, float)):
                            continue
                        nchecks += 1
                        w = w0.as_unit(t)
                        if w.si != w0.si or w.unit != t:
                            viol.append("%s: as_unit(%r) of a quantity with si %r in unit %r gives si %r unit %r" % (q.__name__, t, w0.si, w0.unit, w.si, w.unit))
            except Exception as e:
                viol.append("%s(%r,%r): %s: %s" % (q.__name__, v, un, type(e).__name__, e))
# mixed-type refusal
for a in u.QUANTITIES[:41]:
    b = u.QUANTITIES[(u.QUANTITIES.index(a) + 1) % len(u.QUANTITIES)]
    for op in ("+", "-", "<"):
        nchecks += 1
        try:
            if op == "+": a(1.0) + b(1.0)
            elif op == "-": a(1.0) - b(1.0)
            else: a(1.0) < b(1.0)
            viol.append("%s %s %s accepted" % (a.__name__, op, b.__name__))
        except (ValueError, TypeError):
            pass
# SI unit strings: every string the library itself prints (all print formats) parses back to the same signature
rt_viol = []
rt_checks = 0
U = list(u.SI.SIUNITS)
vecs = [list(q.sisig()) for q in u.QUANTITIES]
for i in range(9):
    for e in range(-9, 10):
        if e:
            v = [0] * 9; v[i] = e; vecs.append(v)
    for j in range(9):
        if i < j:
            for ei in range(-3, 4):
                for ej in range(-3, 4):
                    if ei and ej:
                        v = [0] * 9; v[i] = ei; v[j] = ej; vecs.append(v)
for k in range(7):
    v = [0] * 9; v[k] = 1; v[k + 1] = 2; v[k + 2] = -1; vecs.append(v)
    v = [0] * 9; v[k] = -2; v[k + 1] = 1; v[k + 2] = 1; vecs.append(v)
def canon(v):
    return ".".join(U[i] + (str(v[i]) if v[i] != 1 else "") for i in range(9) if v[i])
for v in vecs:
    if not any(v):
        continue
    try:
        x = u.SI(1.0, canon(v))
        if list(x.sisig()) != v:
            rt_viol.append("SI(1.0, %r).sisig() = %s, expected %s" % (canon(v), list(x.sisig()), v)); continue
    except Exception as e:
        rt_viol.append("SI(1.0, %r): %s: %s" % (canon(v), type(e).__name__, e)); continue
    for div in (True, False):
        for hat in ("", "^"):
            for dot in ("", "."):
                rt_checks += 1
                st = None
                try:
                    st = x.siunit(div, hat, dot)
                    back = list(u.SI.str_to_sisig(st))
                    if back != v:
                        rt_viol.append("signature %s prints as %r which parses as %s" % (v, st, back))
                except Exception as e:
                    rt_viol.append("signature %s prints as %r which does not parse: %s: %s" % (v, st, type(e).__name__, e))
out["roundtrip_checks"] = rt_checks
out["roundtrip_violations"] = rt_viol[:20]
out["roundtrip_violation_count"] = len(rt_viol)
out["sweep_checks"] = nchecks
out["sweep_violations"] = viol[:30]
out["sweep_violation_count"] = len(viol)
json.dump(out, sys.stdout)
'''

_cache = {}


def dump_tables():
    if "d" in _cache:
        return _cache["d"]
    repo = os.environ.get("PYVC_REPO", "/repo")
    env = dict(os.environ)
    env["PYTHONPATH"] = os.path.join(repo, "src")
    p = subprocess.run([os.environ.get("PYVC_NATIVE_PY", "/venv/bin/python"), "-W", "ignore", "-c", DUMP],
                       capture_output=True, text=True, env=env, timeout=300)
    if p.returncode != 0:
        raise RuntimeError("could not import/dump pydsol.core.units: " + p.stderr[-500:])
    _cache["d"] = json.loads(p.stdout)
    return _cache["d"]


def vec_add(a, b, sign=1):
    return [x + sign * y for x, y in zip(a, b)]


def load(reg):
    C16, C17 = ["C16"], ["C17"]
    reg.trust("the dumped class attributes of pydsol.core.units (live import under /venv/bin/python) are the tables the "
              "operators use; ground obligations over them are decided by evaluation (exhaustive)")

    def table_invariants(table):
        d = dump_tables()
        cl = d["classes"]
        out = []
        for a, ca in sorted(cl.items()):
            # signature vector agrees with the declared dict and uses only SI base symbols
            exp = [ca["sidict"].get(u_, 0) for u_ in d["SIUNITS"]]
            out.append(("%s: sisig() equals its _sidict over SIUNITS" % a,
                        ca["sisig"] == exp and set(ca["sidict"]) <= set(d["SIUNITS"]), "sisig=%s sidict=%s" % (ca["sisig"], ca["sidict"])))
            for b, c in sorted(ca["mul"].items()):
                ok = b in cl and c in cl and cl[c]["sisig"] == vec_add(ca["sisig"], cl[b]["sisig"])
                out.append(("_mul: %s * %s -> %s has signature sum" % (a, b, c), ok,
                            "%s + %s vs %s" % (ca["sisig"], cl.get(b, {}).get("sisig"), cl.get(c, {}).get("sisig"))))
            for b, c in sorted(ca["div"].items()):
                ok = b in cl and c in cl and cl[c]["sisig"] == vec_add(ca["sisig"], cl[b]["sisig"], -1)
                out.append(("_div: %s / %s -> %s has signature difference" % (a, b, c), ok,
                            "%s - %s vs %s" % (ca["sisig"], cl.get(b, {}).get("sisig"), cl.get(c, {}).get("sisig"))))
        return out
    reg.ground_obligation("units table invariant TInv (every _mul/_div entry dimensionally sound)", C16, table_invariants)

    def pair_semantics(table):
        """Bounded stand-in (labelled bounded): the real operators on one value pair (3.0, 2.0 in base units) for all
        41 x 41 ordered pairs: SI value = product/quotient, signature = sum/difference, named result iff table entry."""
        d = dump_tables()
        cl = d["classes"]
        bad = []
        n = 0
        named = generic = 0
        for key, r in d["probe"].items():
            a, op, b = key.split(" ")
            n += 1
            if r[0] == "EXC":
                bad.append("%s raised %s" % (key, r[1:]))
                continue
            tname, val, sig = r
            expv = 5.0 * 3.0 if op == "mul" else 5.0 / 3.0     # operands a(5.0), b(3.0): a / b differs from a * (1 / b) in the last bit
            exps = vec_add(cl[a]["sisig"], cl[b]["sisig"], 1 if op == "mul" else -1)
            tab = cl[a]["mul" if op == "mul" else "div"].get(b)
            if abs(val - expv) > 1e-12 or sig != exps:
                bad.append("%s -> %s value %r signature %s (expected %r, %s)" % (key, tname, val, sig, expv, exps))
            if tab is not None:
                named += 1
                if tname != tab:
                    bad.append("%s -> %s but the table says %s" % (key, tname, tab))
            else:
                generic += 1
                if tname != "SI":
                    bad.append("%s -> %s without a table entry" % (key, tname))
        return [("BOUNDED: operators * and / on all %d ordered class pairs (one value pair each; %d named, %d generic SI)"
                 % (n, named, generic), not bad, "; ".join(bad[:5]) or "all agree")]
    reg.ground_obligation("BOUNDED stand-in: quantity * and / on every ordered pair of classes", C16, pair_semantics)

    def unit_invariants(table):
        d = dump_tables()
        out = []
        for a, ca in sorted(d["classes"].items()):
            units = ca["units"]
            out.append(("%s: base unit %r is declared with factor exactly 1" % (a, ca["baseunit"]),
                        units.get(ca["baseunit"]) in (1, 1.0), "factor=%r" % (units.get(ca["baseunit"]),)))
            for un, f in sorted(units.items()):
                ok = isinstance(f, (int, float)) and f != 0
                out.append(("%s unit %r: factor is a finite non-zero number" % (a, un), ok, "factor=%r" % (ca["units_repr"].get(un),)))
                if ca["descriptions"]:
                    out.append(("%s unit %r: has a description" % (a, un), un in ca["descriptions"] and isinstance(ca["descriptions"][un], str), ""))
            for k, v in sorted(ca["displayunits"].items()):
                out.append(("%s display unit of %r is a str (so str() can render it)" % (a, k), isinstance(v, str), "value=%r" % (v,)))
                out.append(("%s display-unit key %r is a declared unit" % (a, k), k in units, ""))
            for k in sorted(ca["descriptions"]):
                out.append(("%s description key %r is a declared unit" % (a, k), k in units, ""))
            # aliases: same display string (or display string = another unit) => same factor
            groups = {}
            for un in units:
                disp = ca["displayunits"].get(un, un)
                if isinstance(disp, str):
                    groups.setdefault(disp, []).append(un)
            for disp, members in sorted(groups.items()):
                if len(members) > 1:
                    fs = {units[m] for m in members if isinstance(units[m], (int, float))}
                    out.append(("%s alias spellings %s share one factor" % (a, sorted(members)), len(fs) == 1, "factors=%s" % sorted(fs)))
            # units sharing one description are spellings of one unit
            bydesc = {}
            for un, ds in ca["descriptions"].items():
                bydesc.setdefault(ds, []).append(un)
            for ds, members in sorted(bydesc.items()):
                if len(members) > 1 and all(m in units for m in members):
                    fs = {units[m] for m in members}
                    out.append(("%s units %s described as %r share one factor" % (a, sorted(members), ds), len(fs) == 1, "factors=%s" % sorted(fs)))
        out.append(("every name in pydsol.core.units.__all__ exists in the module", not d["all_missing"], "missing: %s" % d["all_missing"]))
        out.append(("__all__ has no duplicate names", len(set(d["all"])) == len(d["all"]), ""))
        return out
    reg.ground_obligation("units data invariant UInv (factors, base units, descriptions, display units, aliases, __all__)", C17, unit_invariants)

    def compound_units(table):
        """Compound units a/b whose components are units of the quantities given by the SI signature agree with them."""
        d = dump_tables()
        cl = d["classes"]
        bysig = {}
        for a, ca in cl.items():
            bysig.setdefault(tuple(ca["sisig"]), []).append(a)
        out = []
        unparsed = 0
        checked = 0
        for a, ca in sorted(cl.items()):
            sig = ca["sisig"]
            for un, f in sorted(ca["units"].items()):
                if "/" not in un or not isinstance(f, (int, float)):
                    continue
                num, den = un.split("/", 1)
                found = False
                for qa, qca in cl.items():
                    if num not in qca["units"]:
                        continue
                    for qb, qcb in cl.items():
                        if den not in qcb["units"]:
                            continue
                        if vec_add(qca["sisig"], qcb["sisig"], -1) != sig:
                            continue
                        fa, fb = qca["units"][num], qcb["units"][den]
                        if not (isinstance(fa, (int, float)) and isinstance(fb, (int, float)) and fb):
                            continue
                        found = True
                        checked += 1
                        comp = fa / fb
                        ok = abs(comp - f) <= 1e-9 * max(abs(f), abs(comp))
                        out.append(("%s unit %r = %s %r / %s %r" % (a, un, qa, num, qb, den), ok, "declared %r, composed %r" % (f, comp)))
                        break
                    if found:
                        break
                if not found:
                    unparsed += 1
        out.append(("compound-unit scan: %d units checked, %d names with '/' did not parse into units of other quantities (listed as NOT CHECKED)"
                    % (checked, unparsed), True, ""))
        return out
    reg.ground_obligation("compound units agree with their component units", C17, compound_units)

    def operand_reuse(table):
        d = dump_tables()
        return [("BOUNDED: * and / leave their operands untouched and give the same signature when the left operand (a Quantity or "
                 "its generic SI form) is used again (%d evaluations over all left classes x every 5th right class)" % d["alias_checks"],
                 d["alias_violation_count"] == 0, "; ".join(d["alias_violations"][:3]))]
    reg.ground_obligation("BOUNDED stand-in: operands of * and / are not modified, results do not alias", C16, operand_reuse)

    def si_roundtrip(table):
        d = dump_tables()
        return [("BOUNDED: SI unit strings round-trip through printing (div x hat x dot formats) and parsing for the signatures of all "
                 "quantities, every single base unit with exponents -9..9, every pair of base units with exponents -3..3 and mixed "
                 "triples (%d print/parse evaluations)" % d["roundtrip_checks"],
                 d["roundtrip_violation_count"] == 0, "; ".join(d["roundtrip_violations"][:4]))]
    reg.ground_obligation("BOUNDED stand-in: SI unit strings round-trip through printing and parsing", C16, si_roundtrip)

    def sweep(table):
        d = dump_tables()
        return [("BOUNDED: construction / display value / as_unit / + - neg abs keep the left unit and act on SI values / comparisons / "
                 "str() for every class x every declared unit x 6 values; as_unit into every unit (same unit and aliases included) of re-expressed "
                 "and computed quantities is bit-identical; mixed-type + - < refused (%d native evaluations)" % d["sweep_checks"],
                 d["sweep_violation_count"] == 0, "; ".join(d["sweep_violations"][:4]))]
    reg.ground_obligation("BOUNDED stand-in: native sweep of Quantity construction, conversion and same-type arithmetic", C17, sweep)
