"""Sidecar contracts: EventListHeap and SimEvent ordering (property C01).

Entries of the heap array are tuples (time, -priority, id, event).  Abstract view of the list:
the *set of entries* (ids are unique, so set + length determine the multiset).
wf(self): the array is a binary heap w.r.t. the lexicographic order on (time, -priority, id);
entries are pairwise distinct; every entry is the tuple of its own event; no NaN time.
heapq.heappush / heappop / heapify are dependencies with assumed contracts (DESIGN section 4).
"""
import z3

from pyvc import sorts as S
from pyvc.sorts import SV, INT, BOOL, XREAL, REF, TUP, SEQ, XR
from pyvc.engine import Raise, mk_bool, mk_none

ENT = TUP(XREAL, INT, INT, REF("SimEvent"))
ENT_S = "tup[xreal,int,int,ref:SimEvent]"


def ent_parts(t):
    ts = S.tuple_sort(ENT)
    return [ts.accessor(0, i)(t) for i in range(4)]


def lt_entry(x, y):
    a, b = ent_parts(x), ent_parts(y)
    return z3.Or(S.xr_lt(a[0], b[0]),
                 z3.And(S.xr_eq(a[0], b[0]), z3.Or(a[1] < b[1], z3.And(a[1] == b[1], a[2] < b[2]))))


def le_entry(x, y):
    a, b = ent_parts(x), ent_parts(y)
    return z3.Or(lt_entry(x, y), z3.And(S.xr_eq(a[0], b[0]), a[1] == b[1], a[2] == b[2]))


def is_heap(a):
    k = z3.Int("hk")
    return z3.ForAll([k], z3.Implies(z3.And(1 <= k, k < z3.Length(a)), le_entry(a[(k - 1) / 2], a[k])))


def load(reg):
    C01 = ["C01"]
    C01_C02 = ["C01", "C02"]     # the simulator's exactly-once / ordering property rests on these operations
    reg.declare_fields("SimEvent", _absolute_time="xreal", _priority="int", _id="int", _target="obj",
                       _method="obj", _kwargs="obj")
    reg.declare_fields("EventListHeap", _event_list="seq[%s]" % ENT_S)

    # ---- spec functions
    reg.specfun("is_heap", lambda eng, a: mk_bool(is_heap(a.t)))
    reg.specfun("le_e", lambda eng, x, y: mk_bool(le_entry(eng.pack(x).t, eng.pack(y).t)))
    reg.specfun("lt_e", lambda eng, x, y: mk_bool(lt_entry(eng.pack(x).t, eng.pack(y).t)))

    def entry_of(eng, e):
        ts = S.tuple_sort(ENT)
        # the tuple (e.time, -e.priority, e._id, e) in the *current* heap: built by the caller via fields
        raise NotImplementedError
    reg.define("ENTRY(e)", "(e._absolute_time, -e._priority, e._id, e)")
    reg.define("VALID_EVENT(e)", "not isnan(e._absolute_time)")
    reg.define("ENTRIES_WF(a)",
               "forall('e:%s', implies(contains(a, e), e == ENTRY(e[3]) and not isnan(e[0])))"
               " and distinct_ent(a)" % ENT_S)
    reg.define("WF(l)", "is_heap(l._event_list) and ENTRIES_WF(l._event_list)")
    # minimality of the root (consequence of is_heap, lemma heap_root_min)
    reg.define("ROOT_MIN(a)", "forall('i:int', implies(0 <= i and i < len(a), le_e(a[0], a[i])))"
               " and forall('m:%s', implies(contains(a, m), le_e(a[0], m)))" % ENT_S)

    # ---- dependency contracts: heapq
    reg.trust("heapq.heappush(a,x): requires is_heap(a); ensures is_heap(a'), len(a')=len(a)+1, "
              "members(a') = members(a) + {x}")
    reg.trust("heapq.heappop(a): requires is_heap(a), len(a)>0 (IndexError if empty); returns a[0]; ensures "
              "is_heap(a'), len(a')=len(a)-1, members(a') = members(a) - {a[0]} (entries pairwise distinct)")
    reg.trust("heapq.heapify(a): ensures is_heap(a'), len(a')=len(a), members(a') = members(a)")
    SE = z3.SeqSort(S.tuple_sort(ENT))
    TE = S.tuple_sort(ENT)
    distinct = reg.ufun("distinct_ent", SE, z3.BoolSort())
    mem = reg.ufun("mem_ent", SE, TE, z3.BoolSort())      # membership of an entry in the array
    reg.specfun("seq_member_tup", lambda eng, seq, v: mem(seq.t, v.t))
    rm = reg.ufun("rm_ent", SE, TE, SE)
    reg.specfun("distinct_ent", lambda eng, a: mk_bool(distinct(a.t)))
    reg.trust("sequence facts for the heap array (assumed): distinct_ent = no two positions hold the same entry; "
              "removing the first occurrence from a duplicate-free sequence removes exactly that entry, keeps the rest "
              "duplicate free and one shorter (NOT heap-preserving); permutations/extensions by a new element preserve "
              "duplicate-freeness")
    _s, _x, _y = z3.Const("axe_s", SE), z3.Const("axe_x", TE), z3.Const("axe_y", TE)
    U = z3.Unit
    note = "sequence lemmas over the heap array: membership / remove-first / duplicate-freeness (assumed)"
    _i = z3.Int("axe_i")
    reg.scoped_axiom("heap", z3.ForAll([_s, _i], z3.Implies(z3.And(0 <= _i, _i < z3.Length(_s)), mem(_s, _s[_i])),
                                       patterns=[_s[_i]]), note)
    reg.scoped_axiom("heap", z3.ForAll([_x], z3.Not(mem(z3.Empty(SE), _x)), patterns=[mem(z3.Empty(SE), _x)]), note)
    idx_of = reg.ufun("idx_ent", SE, TE, z3.IntSort())        # a position of a member (choice function)
    reg.scoped_axiom("heap", z3.ForAll([_s, _x], z3.Implies(mem(_s, _x), z3.And(0 <= idx_of(_s, _x), idx_of(_s, _x) < z3.Length(_s),
                                                                             _s[idx_of(_s, _x)] == _x)), patterns=[mem(_s, _x)]), note)
    reg.scoped_axiom("heap", z3.ForAll([_s, _x], z3.Implies(mem(_s, _x), z3.Length(_s) > 0), patterns=[mem(_s, _x)]), note)
    reg.scoped_axiom("heap", distinct(z3.Empty(SE)), note)
    reg.scoped_axiom("heap", z3.ForAll([_s, _x], z3.Implies(z3.And(distinct(_s), mem(_s, _x)),
                     z3.And(z3.Not(mem(rm(_s, _x), _x)), distinct(rm(_s, _x)),
                            z3.Length(rm(_s, _x)) == z3.Length(_s) - 1)), patterns=[rm(_s, _x)]), note)
    reg.scoped_axiom("heap", z3.ForAll([_s, _x, _y], z3.Implies(_y != _x, mem(rm(_s, _x), _y) == mem(_s, _y)),
                     patterns=[mem(rm(_s, _x), _y)]), note)
    reg.scoped_axiom("heap", z3.ForAll([_s, _x], z3.Implies(z3.Not(mem(_s, _x)), rm(_s, _x) == _s),
                     patterns=[rm(_s, _x)]), note)

    def remove_first_ent(eng, seq, v):
        return rm(seq.t, v.t)
    reg.specfun("seq_remove_first_tup", remove_first_ent)

    def members_rel(old, new, add=None, drop=None):
        e = z3.Const("hq_e", S.tuple_sort(ENT))
        rhs = mem(old, e)
        if add is not None:
            rhs = z3.Or(rhs, e == add)
        if drop is not None:
            rhs = z3.And(rhs, e != drop)
        return z3.ForAll([e], mem(new, e) == rhs, patterns=[mem(new, e)])

    def heappush(eng, s, lv, vals):
        a = lv.get(eng, s)
        if a.ty.kind == "emptylist":
            raise NotImplementedError
        x = eng.pack(eng.coerce(vals[0], a.ty.elem)[0])
        eng.oblige("call-pre.heapq.heappush#%d.is_heap" % eng.site("heappush"), "call-pre", s, is_heap(a.t))
        new = S.fresh("heap_after_push", SE)
        s.assume(is_heap(new))
        s.assume(z3.Length(new) == z3.Length(a.t) + 1)
        s.assume(members_rel(a.t, new, add=x.t))
        s.assume(mem(new, x.t))
        s.assume(z3.Implies(z3.And(distinct(a.t), z3.Not(mem(a.t, x.t))), distinct(new)))
        lv.set(eng, s, SV(a.ty, new))
        return [(s, mk_none())]

    def heappop(eng, s, lv, vals):
        a = lv.get(eng, s)
        k = eng.site("heappop")
        eng.oblige("call-pre.heapq.heappop#%d.is_heap" % k, "call-pre", s, is_heap(a.t))
        eng.oblige("call-pre.heapq.heappop#%d.distinct" % k, "call-pre", s, distinct(a.t))

        def cont(s2):
            new = S.fresh("heap_after_pop", SE)
            s2.assume(is_heap(new))
            s2.assume(z3.Length(new) == z3.Length(a.t) - 1)
            s2.assume(members_rel(a.t, new, drop=a.t[0]))
            s2.assume(distinct(new))
            # the remaining entries keep their relative identity: every element of new is an element of old
            res = eng.seq_elem(s2, a, z3.IntVal(0))
            lv.set(eng, s2, SV(a.ty, new))
            return [(s2, res)]
        return eng.implicit(s, "IndexError", z3.Length(a.t) == 0, cont)

    def heapify(eng, s, lv, vals):
        a = lv.get(eng, s)
        if a.ty.kind == "emptylist":
            return [(s, mk_none())]
        new = S.fresh("heap_after_heapify", SE)
        s.assume(is_heap(new))
        s.assume(z3.Length(new) == z3.Length(a.t))
        s.assume(members_rel(a.t, new))
        s.assume(distinct(new) == distinct(a.t))
        # heapify permutes: positions of the same entries, so index-wise facts carry over by membership
        lv.set(eng, s, SV(a.ty, new))
        return [(s, mk_none())]
    reg.specfun("heapq_heappush", heappush)
    reg.specfun("heapq_heappop", heappop)
    reg.specfun("heapq_heapify", heapify)

    # ---- lemma: the root of a heap is a minimum (strong induction on the index; base and step in one VC)
    reg.lemma("heap_root_min", """
def heap_root_min(a, i):
    assume(is_heap(a) and 0 <= i and i < len(a))
    assume(forall('j:int', implies(0 <= j and j < len(a), not isnan(a[j][0]))))
    assume(forall('j:int', implies(0 <= j and j < i, le_e(a[0], a[j]))))      # induction hypothesis
    assert le_e(a[0], a[i]), "root<=a[i]"
""", params={"a": "seq[%s]" % ENT_S, "i": "int"}, props=C01,
              note="strong induction over the index i: the hypothesis is the statement for all j<i; "
                   "the induction schema itself is meta-theory")
    # ... and provided to the functions below as an axiom (same statement, universally closed)
    a = z3.Const("ax_heap", SE)
    i = z3.Int("ax_i")
    j = z3.Int("ax_j")
    nonan = z3.ForAll([j], z3.Implies(z3.And(0 <= j, j < z3.Length(a)), z3.Not(XR.is_nan(ent_parts(a[j])[0]))))
    reg.scoped_axiom("heap", z3.ForAll([a, i], z3.Implies(z3.And(is_heap(a), nonan, 0 <= i, i < z3.Length(a)),
                                                         le_entry(a[0], a[i])),
                                       patterns=[a[i]]),
                     "lemma heap_root_min (proved as its own unit) used as an axiom")
    AX = ("heap",)

    L = "self._event_list"
    L0 = "old(self._event_list)"
    reg.contract("EventListHeap.__init__", params={}, ensures=["WF(self)", "len(%s) == 0" % L],
                 modifies=["self._event_list"], props=C01, axiom_sets=AX)
    reg.contract("EventListHeap.size", params={}, returns="int", ensures=["result == len(%s)" % L],
                 pure=True, props=C01)
    reg.contract("EventListHeap.is_empty", params={}, returns="bool", ensures=["result == (len(%s) == 0)" % L],
                 pure=True, props=C01)
    reg.contract("EventListHeap.add", params={"event": "ref:SimEvent"},
                 requires=["WF(self)", "VALID_EVENT(event)",
                           # the event is not pending already
                           "not contains(%s, ENTRY(event))" % L],
                 ensures=["WF(self)", "len(%s) == len(%s) + 1" % (L, L0),
                          "forall('e:%s', iff(contains(%s, e), contains(%s, e) or e == ENTRY(event)))" % (ENT_S, L, L0)],
                 labels={"WF(self)": "WF"},
                 modifies=["self._event_list"], props=C01_C02, axiom_sets=AX)
    reg.contract("EventListHeap.peek_first", params={}, returns="ref:SimEvent?",
                 requires=["WF(self)"],
                 ensures=["iff(result is None, len(%s) == 0)" % L,
                          # the event handed out is the minimum of all pending entries
                          "implies(len(%s) > 0, result == %s[0][3] and contains(%s, %s[0]) and ROOT_MIN(%s))" % (L, L, L, L, L)],
                 pure=True, props=C01_C02, axiom_sets=AX)
    reg.contract("EventListHeap.pop_first", params={}, returns="ref:SimEvent?",
                 requires=["WF(self)"],
                 ensures=["WF(self)", "iff(result is None, len(%s) == 0)" % L0,
                          "implies(len(%s) == 0, len(%s) == 0)" % (L0, L),
                          "implies(len(%s) > 0, result == %s[0][3] and contains(%s, %s[0])"
                          " and forall('m:%s', implies(contains(%s, m), le_e(%s[0], m)))"
                          " and len(%s) == len(%s) - 1"
                          " and forall('e:%s', iff(contains(%s, e), contains(%s, e) and e != %s[0])))"
                          % (L0, L0, L0, L0, ENT_S, L0, L0, L, L0, ENT_S, L, L0, L0)],
                 labels={"WF(self)": "WF"},
                 modifies=["self._event_list"], props=C01_C02, axiom_sets=AX)
    reg.contract("EventListHeap.contains", params={"event": "ref:SimEvent"}, returns="bool",
                 requires=["WF(self)", "VALID_EVENT(event)"],
                 ensures=["result == contains(%s, ENTRY(event))" % L], pure=True, props=C01, axiom_sets=AX)
    reg.contract("EventListHeap.remove", params={"event": "ref:SimEvent"}, returns="bool",
                 requires=["WF(self)", "VALID_EVENT(event)"],
                 ensures=["WF(self)", "result == contains(%s, ENTRY(event))" % L0,
                          "len(%s) == len(%s) - ite(result, 1, 0)" % (L, L0),
                          # whole view: exactly that entry leaves, every other entry stays
                          "forall('e:%s', iff(contains(%s, e), contains(%s, e) and e != ENTRY(event)))" % (ENT_S, L, L0)],
                 labels={"WF(self)": "WF"},
                 modifies=["self._event_list"], props=C01_C02, axiom_sets=AX)
    reg.contract("EventListHeap.clear", params={}, ensures=["WF(self)", "len(%s) == 0" % L],
                 modifies=["self._event_list"], props=C01, axiom_sets=AX)

    # ---- SimEvent comparison operators: a strict total order that agrees with the entry order
    reg.define("CMPKEY_LT(a, b)", "lt_e(ENTRY(a), ENTRY(b))")
    reg.contract("SimEvent.__cmp__", params={"other": "ref:SimEvent"}, returns="int",
                 requires=["VALID_EVENT(self)", "VALID_EVENT(other)"],
                 ensures=["iff(result < 0, CMPKEY_LT(self, other))", "iff(result > 0, CMPKEY_LT(other, self))",
                          "iff(result == 0, not CMPKEY_LT(self, other) and not CMPKEY_LT(other, self))",
                          "result == -1 or result == 0 or result == 1"],
                 pure=True, props=C01)
    for op, rel in (("__lt__", "CMPKEY_LT(self, other)"), ("__gt__", "CMPKEY_LT(other, self)"),
                    ("__le__", "not CMPKEY_LT(other, self)"), ("__ge__", "not CMPKEY_LT(self, other)"),
                    ("__eq__", "not CMPKEY_LT(self, other) and not CMPKEY_LT(other, self)"),
                    ("__ne__", "CMPKEY_LT(self, other) or CMPKEY_LT(other, self)")):
        reg.contract("SimEvent." + op, params={"other": "ref:SimEvent"}, returns="bool",
                     requires=["VALID_EVENT(self)", "VALID_EVENT(other)"],
                     ensures=["result == (%s)" % rel], pure=True, props=C01)
    # strict total order on events with distinct ids (lemma over the contract of __lt__)
    reg.lemma("simevent_strict_total_order", """
def order(a, b, c):
    assume(VALID_EVENT(a) and VALID_EVENT(b) and VALID_EVENT(c))
    ab = a < b
    ba = b < a
    bc = b < c
    ac = a < c
    aa = a < a
    assert not aa, "irreflexive"
    assert implies(ab and bc, ac), "transitive"
    assert implies(a._id != b._id, ab or ba), "total on distinct ids"
    assert not (ab and ba), "asymmetric"
    assert iff(ab, lt_e(ENTRY(a), ENTRY(b))), "agrees with the event-list key order"
    eq = a == b
    le = a <= b
    ge = a >= b
    ne = a != b
    assert iff(le, ab or eq), "le"
    assert iff(ge, ba or eq), "ge"
    assert iff(ne, not eq), "ne"
""", params={"a": "ref:SimEvent", "b": "ref:SimEvent", "c": "ref:SimEvent"}, props=C01)


def is_heap_marker(reg):
    return reg.ufun("is_heap_marker", z3.SeqSort(S.tuple_sort(ENT)), z3.BoolSort())


_load_el0 = load


def load(reg):      # noqa: F811
    _load_el0(reg)

    # bounded stand-in: the contracts model every clock as a real number; int clocks beyond 2^53 (where float(t) is no longer
    # injective) and Duration clocks (Quantity comparisons) are swept natively against a sorted-set reference
    def clock_sweep(table):
        from pyvc.ground import run_native
        res = run_native({"function": "EventListHeap.add", "obligation": "bounded-sweep-clocks", "property": "C01"})
        return [("BOUNDED: 900 random add/remove/pop/peek/contains/clear histories with int times beyond 2^53, Duration times in mixed "
                 "units, small int and float times: size, membership, peek/pop and drain order equal the sorted-set reference",
                 not res.get("reproduced"), res.get("observed") or res.get("note"))]
    reg.ground_obligation("BOUNDED stand-in: native event-list sweep over clock types (huge int, Duration)", ["C01", "C02"], clock_sweep)
