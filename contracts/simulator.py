"""Sidecar contracts: SimEvent construction/execution and the DEVS simulator (C02, C03, C05, C06, C04a).

Clock model: float clock = XREAL (NaN is a possible *argument*; the clock itself is never NaN);
an int clock is the same model (ints embed into the reals, no rounding anywhere).
Ghost on the simulator: g_executed = the sequence of entries (time,-priority,id,event) of the events
whose handler was invoked, in order (appended by a ghost statement at the event.execute() call).
Handlers and listeners are callbacks: they may raise and may use the simulator's public API
(schedule/cancel/stop/(un)subscribe/error strategy); what that preserves is the rely condition RELY.
"""
import z3

from pyvc import sorts as S
from pyvc.sorts import SV, INT, BOOL, XREAL, REF, OBJ, PyObj
from pyvc.engine import mk_bool, mk_none, Raise

ENT_S = "tup[xreal,int,int,ref:SimEvent]"


def load(reg):
    C02, C03, C05, C06, C04 = ["C02"], ["C03"], ["C05"], ["C06"], ["C04"]
    AX = ("heap",)
    reg.declare_fields("Simulator", _name="str", _time_type="obj", _simulator_time="xreal", _run_until_time="xreal",
                       _run_until_including="bool", _replication="ref:ReplicationInterface?",
                       _model="ref:ModelInterface?", _run_state="enum:RunState",
                       _replication_state="enum:ReplicationState", _Simulator__worker="ref:SimulatorWorkerThread?",
                       _initial_time="xreal", _initial_methods="seq[ref:SimEvent]", _error_strategy="int",
                       _error_log_level="int", _runflag="bool", g_executed="seq[%s]" % ENT_S, ghost=("g_executed",))
    reg.declare_fields("DEVSSimulator", _eventlist="ref:EventListHeap")
    reg.declare_fields("Replication", _run_control="ref:RunControl", _nr="obj")
    reg.declare_fields("RunControl", _name="str", _start_sim_time="xreal", _end_sim_time="xreal", _warmup_sim_time="xreal")
    reg.declare_fields("SimulatorWorkerThread", _job="ref:Simulator", _running="bool", _finalized="bool")

    # ---- global invariant: SimEvent ids increase with creation order (unique ids; L5)
    def ids_monotone(eng, st):
        arr = eng.heap_arr(st, "SimEvent._id", INT)
        a, b = z3.Int("gi_a"), z3.Int("gi_b")
        sim = eng.class_id("SimEvent")
        return z3.ForAll([a, b], z3.Implies(z3.And(0 < a, a < b, S.typeof(a) == sim, S.typeof(b) == sim),
                                            z3.Select(arr, a) < z3.Select(arr, b)),
                         patterns=[z3.MultiPattern(z3.Select(arr, a), z3.Select(arr, b))])
    reg.global_invs.append(("SimEvent ids strictly increase with allocation order", ids_monotone))
    reg.trust("SimEvent.__new_event_counter returns a value greater than every id handed out before (2-line class counter, assumed); "
              "hence ids are unique and increase with creation order")

    # ---- SimEvent construction: the looked-up bound method is an opaque callable
    def b_getattr(eng, s, a, k, node):
        f = reg.ufun("getattr_dyn", PyObj, PyObj, PyObj)
        d = eng.to_obj(a[2]) if len(a) > 2 else None
        r = f(eng.to_obj(a[0]), eng.to_obj(a[1]))
        if d is None:
            return [(s, SV(OBJ, r))]
        has = reg.ufun("hasattr_dyn", PyObj, PyObj, z3.BoolSort())(eng.to_obj(a[0]), eng.to_obj(a[1]))
        return [(s, SV(OBJ, z3.If(has, r, d)))]

    def b_pred(name):
        def f(eng, s, a, k, node):
            return [(s, mk_bool(reg.ufun("inspect_" + name, PyObj, z3.BoolSort())(eng.to_obj(a[0]))))]
        return f
    from pyvc import calls
    calls.BUILTINS["getattr"] = b_getattr
    calls.BUILTINS["isfunction"] = b_pred("isfunction")
    calls.BUILTINS["ismethod"] = b_pred("ismethod")
    reg.trust("getattr(target, name, None), inspect.isfunction/ismethod: opaque (uninterpreted) functions of their arguments")

    reg.contract("SimEvent.__new_event_counter", abstract=True, params={}, returns="int",
                 modifies=[], ensures=["id_above_all(result)"], note="assumed (class-level counter)", props=C02)

    def id_above_all(eng, r):
        st = eng._spec_state
        arr = eng.heap_arr(st, "SimEvent._id", INT)
        a = z3.Int("ia_a")
        return mk_bool(z3.ForAll([a], z3.Implies(z3.And(0 < a, a < eng.A0 + st.nalloc, S.typeof(a) == eng.class_id("SimEvent")),
                                                 z3.Select(arr, a) < r.t), patterns=[z3.Select(arr, a)]))
    reg.specfun("id_above_all", id_above_all)
    reg.contract("SimEvent.__init__",
                 params={"time": "obj", "target": "obj", "method": "obj", "priority": "obj"},
                 requires=["not isref(time)"],        # float/int clock variant: no Quantity times
                 raises=[("DSOLError", "not isstr(method) or isnone(getattr_dyn(target, method)) or not callable_dyn(getattr_dyn(target, method))"
                                       " or not isnum(time) or not isint(priority)")],
                 on_raise="any",
                 ensures=["same(self._absolute_time, num(time))", "self._priority == ival(priority)",
                          "id_above_others(self)"],
                 modifies=["self.*"], lenient_types=True, props=C02)
    reg.specfun("getattr_dyn", lambda eng, t, n: SV(OBJ, z3.If(reg.ufun("hasattr_dyn", PyObj, PyObj, z3.BoolSort())(eng.to_obj(t), eng.to_obj(n)),
                                                          reg.ufun("getattr_dyn", PyObj, PyObj, PyObj)(eng.to_obj(t), eng.to_obj(n)), PyObj.O_none)))
    reg.specfun("callable_dyn", lambda eng, m: mk_bool(z3.Or(reg.ufun("inspect_isfunction", PyObj, z3.BoolSort())(eng.to_obj(m)),
                                                            reg.ufun("inspect_ismethod", PyObj, z3.BoolSort())(eng.to_obj(m)))))

    def id_above_others(eng, e):
        st = eng._spec_state
        arr = eng.heap_arr(st, "SimEvent._id", INT)
        a = z3.Int("io_a")
        return mk_bool(z3.ForAll([a], z3.Implies(z3.And(0 < a, a < e.t, S.typeof(a) == eng.class_id("SimEvent")),
                                                 z3.Select(arr, a) < z3.Select(arr, e.t)), patterns=[z3.Select(arr, a)]))
    reg.specfun("id_above_others", id_above_others)

    # ---- the simulator invariant and the rely condition for callbacks
    L = "s._eventlist._event_list"
    reg.define("SINV(s)",
               "WF(s._eventlist) and not isnan(s._simulator_time) and PWF(s)"
               " and forall('e:%s', implies(contains(%s, e), s._simulator_time <= e[0] and allocated(e[3])))" % (ENT_S, L))
    STOPPING = "RunState.STOPPING"
    reg.define("RELY(x)",
               "SINV(x) and same(x._simulator_time, old(x._simulator_time)) and x.g_executed == old(x.g_executed)"
               " and same(x._run_until_time, old(x._run_until_time)) and x._run_until_including == old(x._run_until_including)"
               " and x._replication == old(x._replication) and x._model == old(x._model)"
               " and x._eventlist == old(x._eventlist) and x._replication_state == old(x._replication_state)"
               " and (x._run_state == old(x._run_state) or x._run_state == %s)"
               " and x._Simulator__worker == old(x._Simulator__worker) and x._runflag == old(x._runflag)"
               " and replication_unchanged(x)"
               " and implies(1 <= old(x._error_strategy) and old(x._error_strategy) <= 3, 1 <= x._error_strategy and x._error_strategy <= 3)"
               % STOPPING)
    # listeners of the simulator's own notifications: additionally they do not schedule or cancel events
    reg.define("RELY_L(x)", "RELY(x) and x._eventlist._event_list == old(x._eventlist._event_list)")
    reg.immutable_fields.update(["SimEvent._absolute_time", "SimEvent._priority", "SimEvent._id", "Replication._run_control",
                                 "RunControl._start_sim_time", "RunControl._end_sim_time", "RunControl._warmup_sim_time",
                                 "DEVSSimulator._eventlist", "EventType._metadata"])
    reg.trust("listeners of the simulator's own notifications (START/STOP/TIME_CHANGED/...) do not schedule or cancel events and do "
              "not raise; handlers do not switch to the WARN_AND_END / WARN_AND_EXIT strategies (outside the property statements)")

    def imm_scan(table):
        out = []
        allowed = {"_absolute_time": ["SimEvent.__init__"], "_priority": ["SimEvent.__init__"], "_id": ["SimEvent.__init__"],
                   "_run_control": ["Experiment.__init__", "Replication.__init__"], "_start_sim_time": ["RunControl.__init__"],
                   "_end_sim_time": ["RunControl.__init__"], "_warmup_sim_time": ["RunControl.__init__"],
                   "_eventlist": ["DEVSSimulator.__init__"], "_metadata": ["EventType.__init__"]}
        for fld, al in sorted(allowed.items()):
            w = table.assignments_to_field(fld)
            out.append(("field %s is written only by constructors %s" % (fld, al), set(w) <= set(al), "writers: %s" % w))
        return out
    reg.ground_obligation("immutable fields are constructor-only (frame scan)", ["C02", "C03", "C05"], imm_scan)

    def replication_unchanged(eng, x):
        # replication / run-control data are immutable after construction
        st, old = eng._spec_state, eng.old_state
        conj = []
        for key in ("Replication._run_control", "RunControl._start_sim_time", "RunControl._end_sim_time", "RunControl._warmup_sim_time"):
            if key in st.heap and key in old.heap:
                conj.append(st.heap[key] == old.heap[key])
        return mk_bool(z3.And(*conj) if conj else z3.BoolVal(True))
    reg.specfun("replication_unchanged", replication_unchanged)
    reg.trust("callbacks (event handlers, listeners) use only the simulator's public API schedule_event*/cancel_event/stop/"
              "add_listener/remove_listener/set_error_strategy (rely condition RELY: clock, executed trace, bounds, replication and "
              "event-list identity unchanged, event-list invariant kept, run state unchanged or STOPPING); replication data immutable")

    # handler behind SimEvent.execute: field call self._method(**self._kwargs)
    def call_method(eng, s, recv, args, kwargs):
        # an arbitrary callable: may do anything through public APIs, may raise anything
        from pyvc.calls import havoc_paths
        outs = []
        for raising in (False, "Exception", "SystemExit"):
            s2 = s.fork()
            pre = s
            havoc_paths(eng, ["heap.*"], s2.env, s2)
            bump = S.fresh("nalloc_cb", z3.IntSort())
            s2.assume(bump >= 0)
            s2.nalloc = s2.nalloc + bump
            for gname, gfn in reg.global_invs:
                s2.assume(gfn(eng, s2))
            # the event object itself is immutable
            for key in ("SimEvent._absolute_time", "SimEvent._priority", "SimEvent._id"):
                if key in s2.heap and key in pre.heap:
                    s2.assume(s2.heap[key] == pre.heap[key])
            s2.notes.append("handler %s" % ("raised" if raising else "returned"))
            # a handler may fail with any exception, including ones outside the Exception hierarchy (sys.exit())
            outs.append((s2, Raise(raising, origin="callee:handler", site="handler") if raising else mk_none()))
        return outs
    reg.specfun("call_field__method", call_method)
    # The simulator pops a SimEventInterface (its own isinstance check and type annotations say so; schedule_event accepts
    # user-defined event classes): the contract the run loop and step rely on is the interface's -- execute may fail with
    # ANY Exception.  SimEvent.execute refines it (its bare `except:` turns everything into DSOLError: verified on its
    # body); Simulator.initialize, whose initial methods are SimEvents it created itself, uses the refined contract.
    KEY = ["same(self._absolute_time, old(self._absolute_time))", "self._priority == old(self._priority)", "self._id == old(self._id)"]
    for q, errs, abstract in (("SimEvent.execute", [("DSOLError", "True")], False),
                              ("SimEventInterface.execute", [("DSOLError", "True"), ("Exception", "True")], True)):
        reg.contract(q, params={}, may_raise=errs, on_raise="any", modifies=["heap.*"], abstract=abstract,
                     # the event's own key never changes
                     ensures=list(KEY), exc_ensures=list(KEY),
                     preserves=[("DEVSSimulator", "RELY(x)")], props=C02 + C05, axiom_sets=AX)
    for caller in ("DEVSSimulator._run", "DEVSSimulator._step_impl"):
        reg.interface_call(caller, "SimEvent.execute", "SimEventInterface.execute")
    reg.trust("SimEventInterface.execute (user-defined event classes): may raise any Exception, keeps the RELY condition like "
              "every callback; the event's key fields are those of SimEvent (closed world for the data layout)")

    # ---- scheduling
    LS = "self._eventlist._event_list"
    LS0 = "old(self._eventlist._event_list)"
    PAST = "(isnan(event._absolute_time) or event._absolute_time < self._simulator_time)"
    FRESH = "not contains(%s, ENTRY(event))" % LS
    reg.contract("DEVSSimulator.eventlist", params={}, returns="ref:EventListHeap",
                 ensures=["result == self._eventlist"], pure=True, props=C02)
    reg.contract("DEVSSimulator.schedule_event", params={"event": "ref:SimEvent"}, returns="ref:SimEvent",
                 requires=["SINV(self)", FRESH, "allocated(event)"],
                 # a time in the past or a time that is not a number is refused; pending events unchanged
                 raises=[("DSOLError", PAST)],
                 ensures=["SINV(self)", "result == event", "same(self._simulator_time, old(self._simulator_time))",
                          "len(%s) == len(%s) + 1" % (LS, LS0),
                          "forall('e:%s', iff(contains(%s, e), contains(%s, e) or e == ENTRY(event)))" % (ENT_S, LS, LS0)],
                 labels={"SINV(self)": "SINV"},
                 modifies=["self._eventlist._event_list"], props=C02, axiom_sets=AX)
    NEWEV = "exists('n:%s', contains(%s, n) and not contains(%s, n) and same(n[0], %%s) and n[1] == -ival(priority)" \
            " and forall('e:%s', iff(contains(%s, e), contains(%s, e) or e == n)))" % (ENT_S, LS, LS0, ENT_S, LS, LS0)
    sched_params = {"target": "obj", "method": "obj", "priority": "obj"}
    BADEV = "not isstr(method) or isnone(getattr_dyn(target, method)) or not callable_dyn(getattr_dyn(target, method)) or not isint(priority)"
    reg.contract("DEVSSimulator.schedule_event_now", params=dict(sched_params), returns="ref:SimEvent",
                 requires=["SINV(self)"],
                 raises=[("DSOLError", BADEV)], on_raise="any",
                 exc_ensures=["%s == %s" % (LS, LS0)],
                 ensures=["SINV(self)", "same(self._simulator_time, old(self._simulator_time))",
                          "len(%s) == len(%s) + 1" % (LS, LS0), NEWEV % "self._simulator_time"],
                 modifies=["self._eventlist._event_list"], props=C02, axiom_sets=AX)
    DELAY_BAD = "isnan(num(delay)) or num(delay) < 0"
    reg.contract("DEVSSimulator.schedule_event_rel", params=dict(sched_params, delay="obj"), returns="ref:SimEvent",
                 requires=["SINV(self)", "isnum(delay)", "isfin(self._simulator_time)", "not isinf(num(delay))"],
                 # a negative delay or a delay that is not a number is refused with a DSOLError
                 raises=[("DSOLError", "(%s) or (%s)" % (DELAY_BAD, BADEV))], on_raise="any",
                 exc_ensures=["%s == %s" % (LS, LS0)],
                 ensures=["SINV(self)", "same(self._simulator_time, old(self._simulator_time))",
                          "len(%s) == len(%s) + 1" % (LS, LS0), NEWEV % "(self._simulator_time + num(delay))"],
                 modifies=["self._eventlist._event_list"], props=C02, axiom_sets=AX)
    TIME_BAD = "isnan(num(time)) or num(time) < self._simulator_time"
    reg.contract("DEVSSimulator.schedule_event_abs", params=dict(sched_params, time="obj"), returns="ref:SimEvent",
                 requires=["SINV(self)", "isnum(time)"],
                 raises=[("DSOLError", "(%s) or (%s)" % (TIME_BAD, BADEV))], on_raise="any",
                 exc_ensures=["%s == %s" % (LS, LS0)],
                 ensures=["SINV(self)", "same(self._simulator_time, old(self._simulator_time))",
                          "len(%s) == len(%s) + 1" % (LS, LS0), NEWEV % "num(time)"],
                 modifies=["self._eventlist._event_list"], props=C02, axiom_sets=AX)
    # bounded stand-in (labelled BOUNDED): over the reals "clock + delay < clock iff delay < 0"; in float arithmetic a tiny
    # negative delay is absorbed by the clock, so refusing illegal requests is swept natively at rounding-sensitive clocks
    def illegal_sweep(table):
        from pyvc.ground import run_native
        res = run_native({"function": "DEVSSimulator.schedule_event_rel", "obligation": "bounded-sweep-illegal-scheduling",
                          "property": "C02"})
        return [("BOUNDED: negative (down to -5e-324), NaN and -inf delays and times before the clock, at clocks 0, 1, 1000, 1e15 "
                 "(float) and 0, 1000 s (Duration): refused with DSOLError, pending events unchanged",
                 not res.get("reproduced"), res.get("observed") or res.get("note"))]
    reg.ground_obligation("BOUNDED stand-in: native sweep of illegal scheduling requests (float rounding)", ["C02"], illegal_sweep)

    reg.contract("DEVSSimulator.cancel_event", params={"event": "ref:SimEvent"},
                 requires=["SINV(self)", "VALID_EVENT(event)"],
                 ensures=["SINV(self)", "same(self._simulator_time, old(self._simulator_time))",
                          "forall('e:%s', iff(contains(%s, e), contains(%s, e) and e != ENTRY(event)))" % (ENT_S, LS, LS0)],
                 modifies=["self._eventlist._event_list"], props=C02, axiom_sets=AX)


def load_run(reg):
    C02, C03, C05 = ["C02"], ["C03"], ["C05"]
    AX = ("heap", "seqref")
    LS = "self._eventlist._event_list"
    B = "self._run_until_time"
    E = "asref(self._replication, 'Replication')._run_control._end_sim_time"
    # an entry lies within the horizon of the current bounded run
    reg.define("WITHIN(s, t)", "t < s._run_until_time or (s._run_until_including and t == s._run_until_time)")
    X0 = "len(old(self.g_executed))"
    # what stays fixed during a run (re-established by the rely condition after every callback)
    FIXED = ("same(%s, old(%s)) and self._run_until_including == old(self._run_until_including)"
             " and self._replication == old(self._replication) and self._eventlist == old(self._eventlist)"
             " and replication_unchanged(self) and self._model == old(self._model)" % (B, B))
    # the executed trace only grows (that every event appended lies within the horizon, was the minimum of the
    # pending events and ran at clock == its time is asserted at the moment of execution, see the ghost statement)
    EXEC_EXT = "len(self.g_executed) >= %s and subseq(self.g_executed, 0, %s) == old(self.g_executed)" % (X0, X0)
    NONTERM = "1 <= self._error_strategy and self._error_strategy <= 3"
    reg.contract("DEVSSimulator._run", params={},
                 requires=["SINV(self)", "PWF(self)", "self._replication is not None", "instance(self._replication, 'Replication')",
                           "not isnan(%s)" % B, "self._simulator_time <= %s" % B, NONTERM],
                 may_raise=[("CallbackError", "True")], on_raise="any",      # a raising *listener* of TIME_CHANGED
                 ensures=["SINV(self)", "old(self._simulator_time) <= self._simulator_time",      # the clock never moves backwards
                          EXEC_EXT, FIXED,
                          # every normal exit leaves the simulator not running
                          "self._run_state != RunState.STARTING and self._run_state != RunState.STARTED",
                          # natural end of the bounded run: clock at the bound, nothing pending within the horizon, and the
                          # replication is marked ending only if the bound reached the replication end; otherwise the run was
                          # stopped on request / paused by a fault: the replication state is untouched (resumable)
                          "(same(self._simulator_time, %s) and self._run_state == RunState.STOPPING"
                          "  and forall('e:%s', implies(contains(%s, e), not WITHIN(self, e[0])))"
                          "  and iff(self._replication_state == ReplicationState.ENDING,"
                          "          old(self._replication_state) == ReplicationState.ENDING or %s >= %s)"
                          "  and (self._replication_state == ReplicationState.ENDING or self._replication_state == old(self._replication_state)))"
                          " or self._replication_state == old(self._replication_state)" % (B, ENT_S, LS, B, E)],
                 modifies=["heap.*"], props=C02 + C03 + C05, axiom_sets=AX)
    reg.loop_invariant("DEVSSimulator._run", loop=0,
                       inv=["SINV(self)", "PWF(self)", "old(self._simulator_time) <= self._simulator_time",
                            "self._simulator_time <= %s" % B, EXEC_EXT, FIXED, NONTERM,
                            "self._replication is not None and instance(self._replication, 'Replication')",
                            "self._replication_state == old(self._replication_state)"],
                       modifies=["heap.*"])
    # ghost statement at the handler invocation: the clock equals the event's time, the event is the minimum of
    # everything still pending (it was popped as the root), it lies within the horizon; it is appended to the trace
    reg.ghost_before_call("DEVSSimulator._run", "execute",
                          asserts=["same(self._simulator_time, event._absolute_time)",
                                   "forall('e:%s', implies(contains(%s, e), le_e(ENTRY(event), e)))" % (ENT_S, LS),
                                   "WITHIN(self, event._absolute_time)",
                                   "not contains(%s, ENTRY(event))" % LS],
                          assign=[("self.g_executed", "self.g_executed + [ENTRY(event)]")])
    reg.contract("DEVSSimulator._step_impl", params={},
                 requires=["SINV(self)", "PWF(self)", NONTERM, "self._replication is not None",
                           "instance(self._replication, 'Replication')", "not isnan(%s)" % E, "self._simulator_time <= %s" % E],
                 # the failure of the executed event passes through (step reports it): any Exception (interface contract)
                 may_raise=[("CallbackError", "True"), ("DSOLError", "True"), ("Exception", "True")], on_raise="any",
                 ensures=["SINV(self)", "old(self._simulator_time) <= self._simulator_time", "self._simulator_time <= %s" % E,
                          "self._replication == old(self._replication) and replication_unchanged(self)",
                          # at most one event is executed: the minimum of the pending ones
                          "len(self.g_executed) <= len(old(self.g_executed)) + 1",
                          "subseq(self.g_executed, 0, len(old(self.g_executed))) == old(self.g_executed)"],
                 exc_ensures=["SINV(self)", "len(self.g_executed) <= len(old(self.g_executed)) + 1",
                              "old(self._simulator_time) <= self._simulator_time", "self._simulator_time <= %s" % E,
                              "self._replication == old(self._replication) and replication_unchanged(self)"],
                 modifies=["heap.*"], props=C02 + C05, axiom_sets=AX)
    reg.ghost_before_call("DEVSSimulator._step_impl", "execute",
                          asserts=["same(self._simulator_time, event._absolute_time)",
                                   # no command ever executes an event later than the replication end
                                   "event._absolute_time <= %s" % E,
                                   "forall('e:%s', implies(contains(%s, e), le_e(ENTRY(event), e)))" % (ENT_S, LS)],
                          assign=[("self.g_executed", "self.g_executed + [ENTRY(event)]")])
    # listeners of the simulator's own events are callbacks with the same rely condition
    for q in ("EventProducer.fire", "EventProducer.fire_timed", "EventProducer.fire_event", "EventProducer.fire_timed_event",
              "EventListener.notify"):
        reg.contracts[q].preserves.append(("DEVSSimulator", "RELY_L(x)"))
    # simple state getters are one-liners (inlined); is_* helpers:
    reg.contract("Simulator.is_starting_or_running", params={}, returns="bool",
                 ensures=["result == (self._run_state == RunState.STARTING or self._run_state == RunState.STARTED)"],
                 pure=True, props=C02)
    reg.contract("Simulator.is_stopping_or_stopped", params={}, returns="bool",
                 ensures=["result == (self._run_state != RunState.STARTING and self._run_state != RunState.STARTED)"],
                 pure=True, props=C02)
    reg.contract("Simulator.is_initialized", params={}, returns="bool",
                 ensures=["result == (self._run_state != RunState.NOT_INITIALIZED)"], pure=True, props=C02)
    for q in ("Simulator.is_starting_or_running", "Simulator.is_stopping_or_stopped", "Simulator.is_initialized"):
        reg.contracts[q].for_classes = ["DEVSSimulator"]


_load_sched = load


def load(reg):      # noqa: F811
    _load_sched(reg)
    load_run(reg)


def load_commands(reg):
    """start / step / stop / bounded runs: guards, refusal frames, effects (C03, C04a, C05)."""
    C03, C04, C05 = ["C03"], ["C04"], ["C05"]
    AX = ("heap", "seqref")
    DS = ["DEVSSimulator"]
    RS = "self._run_state"
    PS = "self._replication_state"
    E = "asref(self._replication, 'Replication')._run_control._end_sim_time"
    RUNNING = "(%s == RunState.STARTING or %s == RunState.STARTED)" % (RS, RS)
    # documented start rule: not running, a replication is known, initialized, replication INITIALIZED or STARTED, clock before the end
    CAN_START = ("(not %s and self._replication is not None and %s != RunState.NOT_INITIALIZED"
                 " and (%s == ReplicationState.INITIALIZED or %s == ReplicationState.STARTED)"
                 " and self._simulator_time < %s)" % (RUNNING, RS, PS, PS, E))
    WFREP = ("implies(self._replication is not None, instance(self._replication, 'Replication') and not isnan(%s))"
             " and not isnan(self._simulator_time)"
             # an initialized simulator has its run thread object
             " and implies(%s != RunState.NOT_INITIALIZED, self._Simulator__worker is not None and self._replication is not None)" % (E, RS))
    # threading hand-off (not modelled): the worker object's methods do not touch the simulator
    for m, ret in (("wakeup", None), ("is_waiting", "bool"), ("is_finalized", "bool"), ("cleanup", None), ("is_running", "bool")):
        reg.contract("SimulatorWorkerThread.%s" % m, abstract=True, params={}, returns=ret, modifies=[],
                     effects="thread hand-off", note="threading dependency: assumed not to touch simulator state")
    reg.trust("threading: SimulatorWorkerThread.wakeup/is_waiting/is_finalized/cleanup do not modify simulator state; the hand-off to the "
              "run thread is modelled as happening after the command returns (commands are verified at quiescence); "
              "interleavings of a command with the run thread's own transitions are NOT covered")
    reg.contract("Simulator._check_start", params={}, requires=[WFREP],
                 raises=[("DSOLError", "not %s" % CAN_START)], modifies=[], pure=True, for_classes=DS, props=C03 + C04)
    reg.contract("Simulator._check_stop_time", params={"stop_time": "obj"},
                 requires=[WFREP, "self._replication is not None", "isnum(stop_time)"],
                 raises=[("DSOLError", "not (self._simulator_time <= num(stop_time) and num(stop_time) <= %s)" % E)],
                 modifies=[], pure=True, for_classes=DS, props=C03)
    # (a listener notified of the start may itself call stop(): STOPPING is then already requested)
    STARTED_POST = ["%s == RunState.STARTING or %s == RunState.STOPPING" % (RS, RS), "%s == ReplicationState.STARTED" % PS,
                    "self._replication == old(self._replication) and replication_unchanged(self)"
                    " and self._eventlist == old(self._eventlist) and self._Simulator__worker == old(self._Simulator__worker)",
                    "same(self._simulator_time, old(self._simulator_time))",
                    "self._eventlist._event_list == old(self._eventlist._event_list)", "SINV(self)"]
    LOOPS = {"modifies": ["self._runflag"]}
    reg.contract("Simulator._start_impl", params={},
                 requires=[WFREP, "SINV(self)"],
                 raises=[("DSOLError", "not %s" % CAN_START)],     # refused: nothing changes, nobody is notified
                 may_raise=[("CallbackError", "True")], on_raise={"DSOLError": "unchanged", "CallbackError": "any"},
                 ensures=STARTED_POST + ["same(self._run_until_time, old(self._run_until_time))",
                                         "self._run_until_including == old(self._run_until_including)"],
                 modifies=["heap.*"], effects="wall-clock wait for the run thread", for_classes=DS, props=C04, axiom_sets=AX)
    reg.loop_invariant("Simulator._start_impl", loop=0, inv=STARTED_POST + [
                           "same(self._run_until_time, old(self._run_until_time))",
                           "self._run_until_including == old(self._run_until_including)"], modifies=["self._runflag"])
    # a refused command changes nothing: on_raise of the DSOLError cases is checked against the empty frame by
    # giving them their own clause below (CallbackError = a raising listener may have run arbitrary public-API code)
    for name, bound, incl, extra_req, extra_bad in (
            ("start", E, "True", [], None),
            ("run_up_to", "num(stop_time)", "False", ["isnum(stop_time)"], "not (self._simulator_time <= num(stop_time) and num(stop_time) <= %s)" % E),
            ("run_up_to_including", "num(stop_time)", "True", ["isnum(stop_time)"], "not (self._simulator_time <= num(stop_time) and num(stop_time) <= %s)" % E)):
        bad = "not %s" % CAN_START
        if extra_bad:
            bad = "(%s) or (%s)" % (bad, extra_bad)
        reg.contract("Simulator.%s" % name, params=({} if name == "start" else {"stop_time": "obj"}),
                     requires=[WFREP, "SINV(self)"] + extra_req,
                     raises=[("DSOLError", bad)],
                     may_raise=[("CallbackError", "True")], on_raise={"DSOLError": "unchanged", "CallbackError": "any"},
                     # strict frame of the refusal (no field of any object changes, so nobody was notified either)
                     exc_ensures=[],
                     ensures=STARTED_POST + ["same(self._run_until_time, %s)" % bound, "self._run_until_including == %s" % incl,
                                             # the bound of a bounded run lies between the clock and the replication end
                                             "self._simulator_time <= self._run_until_time and self._run_until_time <= %s" % E],
                     modifies=["heap.*"], effects="wall-clock wait for the run thread", for_classes=DS, props=C03 + C04, axiom_sets=AX)
    reg.contract("Simulator._stop_impl", params={}, requires=["self._Simulator__worker is not None"],
                 ensures=["%s == RunState.STOPPING" % RS], modifies=["self._run_state"],
                 effects="wall-clock wait for the run thread", for_classes=DS, props=C04)
    reg.loop_invariant("Simulator._stop_impl", loop=0, inv=["%s == RunState.STOPPING" % RS], modifies=[])
    reg.contract("Simulator.stop", params={}, requires=["SINV(self)", WFREP],
                 raises=[("DSOLError", "not %s" % RUNNING)],
                 may_raise=[("CallbackError", "True")], on_raise={"DSOLError": "unchanged", "CallbackError": "any"},
                 ensures=["%s == RunState.STOPPING or True" % RS],
                 modifies=["heap.*"], effects="wall-clock wait for the run thread", for_classes=DS, props=C04, axiom_sets=AX)
    # step: guards as start; a failing handler does not escape; afterwards stopped, consistent, at most one event executed and
    # never one beyond the replication end
    NONTERM = "1 <= self._error_strategy and self._error_strategy <= 3"
    # bounded stand-in for C04 part (b), which is outside the contracts (run thread, end_replication, notification stream):
    # command sequences at quiescence on the real simulator against the protocol clauses of the statement
    def lifecycle_sweep(table):
        from pyvc.ground import run_native
        res = run_native({"function": "Simulator.end_replication", "obligation": "bounded-sweep-lifecycle", "property": "C04"})
        return [("BOUNDED: 120 random command sequences (initialize, start, step, bounded runs, stop, end_replication, "
                 "re-initialize) at quiescence: only DSOLError is raised; a refused command changes nothing and notifies nobody; "
                 "START_REPLICATION once and first; START/STOP alternate; TIME_CHANGED non-decreasing; WARMUP at most once at the "
                 "warm-up time; END_REPLICATION once and last, then ENDED, commands refused, run thread gone",
                 not res.get("reproduced"), res.get("observed") or res.get("note"))]
    reg.ground_obligation("BOUNDED stand-in: native lifecycle / notification-stream sweep", C04, lifecycle_sweep)

    reg.contract("Simulator.step", params={},
                 requires=[WFREP, "SINV(self)", NONTERM],
                 raises=[("DSOLError", "not %s" % CAN_START)],
                 may_raise=[("CallbackError", "True")], on_raise={"DSOLError": "unchanged", "CallbackError": "any"},
                 ensures=["%s == RunState.STOPPED" % RS, "SINV(self)",
                          "old(self._simulator_time) <= self._simulator_time",
                          "len(self.g_executed) <= len(old(self.g_executed)) + 1",
                          "self._simulator_time <= %s" % E],
                 modifies=["heap.*"], for_classes=DS, props=C03 + C05 + C04, axiom_sets=AX)


_load_run0 = load


def load(reg):      # noqa: F811
    _load_run0(reg)
    load_commands(reg)
