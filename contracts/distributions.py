"""Sidecar contracts: distributions (property C14) -- draw() of 18 of the 19 concrete classes, stream
(re)pointing, constructor validation for the simple classes.

The stream is the (only) StreamInterface implementation MersenneTwister under its C12 contract: one
next_float() = one step of the abstract generator, result Out(S) in [0,1) -- *including exactly 0.0*.
A draw is total iff no math-domain / division error is possible for any such value.
Numeric model: reals; math.log/exp/sqrt/pow are uninterpreted with domain, sign and monotonicity
axioms (DESIGN section 4).  DistNormalTrunc.draw (erf_inv accuracy guards) is not under contract.
"""
import z3

from pyvc import sorts as S
from pyvc.sorts import SV, REAL, INT
from pyvc.engine import mk_bool


def load(reg):
    C14 = ["C14"]
    STM = "asref(self._stream, 'MersenneTwister')"
    GS = "%s._random.g_S" % STM
    GS0 = "old(%s)" % GS
    U0 = "Out(%s)" % GS0
    reg.declare_fields("Distribution", _stream="ref:StreamInterface")
    reg.declare_fields("DistBernoulli", _p="real")
    reg.declare_fields("DistBinomial", _p="real", _n="int")
    reg.declare_fields("DistDiscreteUniform", _lo="int", _hi="int")
    reg.declare_fields("DistConstant", _constant="real")
    reg.declare_fields("DistExponential", _mean="real")
    reg.declare_fields("DistGamma", _shape="real", _scale="real")
    reg.declare_fields("DistErlang", _scale="real", _k="int", _lambda="real", _dist_gamma="ref:DistGamma?")
    reg.declare_fields("DistGeometric", _p="real", _lnp="real")
    reg.declare_fields("DistNegBinomial", _p="real", _lnp="real", _s="int")
    reg.declare_fields("DistNormal", _mu="real", _sigma="real", _saved_gaussian="real", _have_saved_gaussian="bool")
    reg.declare_fields("DistLogNormal", _c2sigma2="real", _c2pisigma2="real")
    reg.declare_fields("DistPearson5", _alpha="real", _beta="real", _dist="ref:DistGamma")
    reg.declare_fields("DistPearson6", _alpha1="real", _alpha2="real", _beta="real", _dist1="ref:DistGamma", _dist2="ref:DistGamma")
    reg.declare_fields("DistBeta", _alpha1="real", _alpha2="real", _dist1="ref:DistGamma?", _dist2="ref:DistGamma?")
    reg.declare_fields("DistPoisson", _rate="real", _expl="real")
    reg.declare_fields("DistTriangular", _lo="real", _mode="real", _hi="real")
    reg.declare_fields("DistUniform", _lo="real", _hi="real")
    reg.declare_fields("DistWeibull", _alpha="real", _beta="real")
    # math.e as a constant with its defining bounds
    e_c = reg.ufun("const_e", z3.RealSort())()
    reg.axiom(z3.And(e_c > z3.RealVal("2.718"), e_c < z3.RealVal("2.719")), "math.e is a constant in (2.718, 2.719)")
    reg.trust("math.log/exp/sqrt/pow: uninterpreted with domain (log x needs x>0, sqrt x needs x>=0), sign and monotonicity axioms")

    def draw(cls, inv, ensures, modifies_extra=(), returns="real", n_uniform=None, **kw):
        """contract of <cls>.draw: requires the parameter invariant; total (raises nothing); consumes the
        stream only (frame: everything else unchanged -> instances never influence each other)"""
        reg.contract("%s.draw" % cls, params={}, returns=returns,
                     requires=["self._stream is not None or True", inv],
                     ensures=list(ensures), raises=[], on_raise="any",
                     modifies=[GS] + list(modifies_extra), effects="deterministic", props=C14, **kw)

    # ---- single-uniform classes: the draw is an explicit function of the parameters and the one stream output
    draw("DistBernoulli", "0 <= self._p and self._p <= 1",
         ["result == ite(%s <= self._p, 1, 0)" % U0, "%s == Next(%s)" % (GS, GS0)], returns="int")
    draw("DistDiscreteUniform", "self._lo <= self._hi",
         ["self._lo <= result and result <= self._hi", "%s == Next(%s)" % (GS, GS0)], returns="int")
    draw("DistConstant", "True", ["result == self._constant", "%s == Next(%s)" % (GS, GS0)])
    draw("DistUniform", "self._lo < self._hi",
         ["result == self._lo + (self._hi - self._lo) * %s" % U0, "self._lo <= result and result < self._hi",
          "%s == Next(%s)" % (GS, GS0)])
    draw("DistTriangular", "self._lo <= self._mode and self._mode <= self._hi and self._lo < self._hi",
         ["self._lo <= result and result <= self._hi", "%s == Next(%s)" % (GS, GS0)])
    draw("DistExponential", "self._mean > 0", ["result >= 0", "%s == Next(%s)" % (GS, GS0)])
    draw("DistWeibull", "self._alpha > 0 and self._beta > 0", ["result >= 0", "%s == Next(%s)" % (GS, GS0)])
    # p = 1 cannot be constructed (the constructor takes log(1-p)); lnp = log(1-p) <= 0, = 0 exactly for p = 0
    draw("DistGeometric", "0 <= self._p and self._p < 1 and self._lnp <= 0 and iff(self._lnp == 0, self._p == 0)",
         ["result >= 0", "%s == Next(%s)" % (GS, GS0)], returns="int")
    reg.specfun("logf", lambda eng, x: SV(REAL, reg.ufun("logf", z3.RealSort(), z3.RealSort())(eng.coerce(x, REAL)[0].t)))
    # ---- loops over a symbolic number of uniforms
    draw("DistBinomial", "0 <= self._p and self._p <= 1 and self._n > 0",
         ["0 <= result and result <= self._n"], returns="int")
    reg.loop_invariant("DistBinomial.draw", loop=0, inv=["0 <= _i", "0 <= x and x <= _i", "_i <= self._n",
                                                         "self._stream == old(self._stream)", "self._n == old(self._n)"],
                       modifies=[GS])
    draw("DistNegBinomial", "0 <= self._p and self._p < 1 and self._lnp <= 0 and iff(self._lnp == 0, self._p == 0) and self._s > 0",
         ["result >= 0"], returns="int")
    reg.loop_invariant("DistNegBinomial.draw", loop=0, inv=["0 <= _i", "x >= 0", "self._stream == old(self._stream)",
                                                            "self._lnp == old(self._lnp) and self._p == old(self._p)"],
                       modifies=[GS])
    draw("DistPoisson", "self._rate > 0 and self._expl > 0 and self._expl < 1", ["result >= 0"], returns="int")
    reg.loop_invariant("DistPoisson.draw", loop=0, inv=["x >= -1", "0 <= s and s <= 1", "implies(x == -1, s == 1)",
                                                        "self._stream == old(self._stream)", "self._expl == old(self._expl)"],
                       modifies=[GS])
    # ---- gamma: three regimes, acceptance-rejection bounded to 1000 tries; every exit returns a positive value
    # (a uniform of exactly 0 yields 0 in the shape<1 regime, hence >= 0, not > 0)
    draw("DistGamma", "self._shape > 0 and self._scale > 0", ["result >= 0"])
    for k in (0, 1):
        reg.loop_invariant("DistGamma.draw", loop=k, inv=["counter >= 0", "self._stream == old(self._stream)",
                                                          "self._shape == old(self._shape) and self._scale == old(self._scale)"]
                           + (["b == (const_e() + self._shape) / const_e()"] if k == 0 else
                              ["a > 0", "theta == 4.5"]),
                           modifies=[GS])
    reg.specfun("const_e", lambda eng: SV(REAL, e_c))
    # ---- erlang: product of k uniforms (k<10) or an inner gamma
    GD = "self._dist_gamma"
    ERL = ("self._scale > 0 and self._k > 0 and implies(self._k >= 10, %s is not None and %s._stream == self._stream"
           " and %s._shape > 0 and %s._scale > 0)" % (GD, GD, GD, GD))
    draw("DistErlang", ERL, ["result >= 0"])
    reg.loop_invariant("DistErlang.draw", loop=0, inv=["0 <= _i", "0 <= product and product <= 1",
                                                       "self._stream == old(self._stream)", "self._scale == old(self._scale)"],
                       modifies=[GS])
    # ---- normal (polar method with a cached second value) and log-normal
    NMOD = ["self._saved_gaussian", "self._have_saved_gaussian"]
    reg.contract("DistNormal._next_gaussian", params={}, returns="real", requires=["self._sigma > 0"], raises=[], on_raise="any",
                 ensures=["self._stream == old(self._stream)"],
                 modifies=[GS] + NMOD, effects="deterministic", for_classes=["DistNormal", "DistLogNormal"], props=C14)
    reg.loop_invariant("DistNormal._next_gaussian", loop=0, inv=["s >= 0", "self._stream == old(self._stream)"], modifies=[GS],
                       locals_types={"v1": "real", "v2": "real"})
    reg.contract("DistNormal.draw", params={}, returns="real", requires=["self._sigma > 0"], raises=[], on_raise="any",
                 ensures=["self._stream == old(self._stream)"], modifies=[GS] + NMOD, effects="deterministic",
                 for_classes=["DistNormal", "DistLogNormal"], props=C14)
    reg.contract("DistLogNormal.draw", params={}, returns="real", requires=["self._sigma > 0"], raises=[], on_raise="any",
                 ensures=["result > 0"], modifies=[GS] + NMOD, effects="deterministic", props=C14)
    # ---- compositions of gammas: the inner distributions draw from the same stream (coherence)
    def coherent(d):
        return "%s is not None and %s._stream == self._stream and %s._shape > 0 and %s._scale > 0" % (d, d, d, d)
    draw("DistPearson5", "self._alpha > 0 and self._beta > 0 and " + coherent("self._dist"), ["result >= 0"])
    draw("DistPearson6", "self._alpha1 > 0 and self._alpha2 > 0 and self._beta > 0 and " + coherent("self._dist1")
         + " and " + coherent("self._dist2"), ["result >= 0"])
    draw("DistBeta", "self._alpha1 > 0 and self._alpha2 > 0 and " + coherent("self._dist1") + " and " + coherent("self._dist2"),
         ["0 <= result and result <= 1"])

    # ---- stream (re)pointing: after the setter every inner distribution reachable from self draws from
    #      the new stream, and the cached gaussian is dropped -> the old stream is never consumed again
    reg.contract("Distribution._set_stream", params={"stream": "obj"},
                 raises=[("TypeError", "not instance(stream, 'StreamInterface')")],
                 ensures=["self._stream == asref(stream, 'StreamInterface')"], modifies=["self._stream"],
                 for_classes=["DistBernoulli", "DistExponential", "DistGamma", "DistUniform", "DistNormal", "DistBeta",
                              "DistErlang", "DistPearson5", "DistPearson6", "DistLogNormal"], props=C14)
    NEWS = "asref(stream, 'StreamInterface')"
    reg.contract("DistNormal._set_stream", params={"stream": "obj"},
                 raises=[("TypeError", "not instance(stream, 'StreamInterface')")],
                 ensures=["self._stream == %s" % NEWS, "not self._have_saved_gaussian"],
                 modifies=["self._stream", "self._have_saved_gaussian"], for_classes=["DistNormal", "DistLogNormal"], props=C14)
    GINIT = {"stream": "obj", "shape": "obj", "scale": "obj"}
    reg.contract("DistGamma.__init__", params=GINIT,
                 raises=[("TypeError", "not instance(stream, 'StreamInterface') or not isnum(shape) or not isnum(scale)"),
                         ("ValueError", "instance(stream, 'StreamInterface') and isnum(shape) and isnum(scale)"
                                        " and (isnan(num(shape)) or isnan(num(scale)) or val(num(shape)) <= 0 or val(num(scale)) <= 0)")],
                 requires=["not isref(shape) and not isref(scale)", "not isnum(shape) or isfin(shape) or isnan(num(shape))",
                           "not isnum(scale) or isfin(scale) or isnan(num(scale))"],
                 on_raise="any",
                 ensures=["self._stream == %s" % NEWS, "self._shape == val(num(shape))", "self._scale == val(num(scale))",
                          "self._shape > 0 and self._scale > 0"],
                 modifies=["self.*"], props=C14)
    for cls, inner in (("DistPearson5", ["_dist"]), ("DistPearson6", ["_dist1", "_dist2"]), ("DistBeta", ["_dist1", "_dist2"])):
        inv = {"DistPearson5": "self._alpha > 0 and self._beta > 0",
               "DistPearson6": "self._alpha1 > 0 and self._alpha2 > 0 and self._beta > 0",
               "DistBeta": "self._alpha1 > 0 and self._alpha2 > 0"}[cls]
        reg.contract("%s._set_stream" % cls, params={"stream": "obj"}, requires=[inv],
                     raises=[("TypeError", "not instance(stream, 'StreamInterface')")],
                     ensures=["self._stream == %s" % NEWS] + [coherent("self.%s" % d) for d in inner],
                     modifies=["self._stream"] + ["self.%s" % d for d in inner], props=C14)
    reg.contract("DistErlang._set_stream", params={"stream": "obj"}, requires=["self._scale > 0 and self._k > 0"],
                 raises=[("TypeError", "not instance(stream, 'StreamInterface')")],
                 ensures=["self._stream == %s" % NEWS,
                          "implies(self._k >= 10, %s)" % coherent("self._dist_gamma"), "implies(self._k < 10, self._dist_gamma is None)"],
                 modifies=["self._stream", "self._dist_gamma"], props=C14)


def load_setter(reg):
    """The public way to re-point a distribution: the ``stream`` property setter."""
    C14 = ["C14"]
    NEWS = "asref(stream, 'StreamInterface')"
    plain = ["DistBernoulli", "DistExponential", "DistGamma", "DistUniform", "DistWeibull", "DistTriangular", "DistPoisson"]
    reg.contract("Distribution.stream@setter", params={"stream": "obj"},
                 raises=[("TypeError", "not instance(stream, 'StreamInterface')")],
                 ensures=["self._stream == %s" % NEWS,
                          # a cached second gaussian computed from the old stream must not survive the assignment
                          "implies(instance(self, 'DistNormal'), not asref(self, 'DistNormal')._have_saved_gaussian)"],
                 modifies=["self.*"], for_classes=plain + ["DistNormal", "DistLogNormal"], props=C14)


_load_d0 = load


def load(reg):      # noqa: F811
    _load_d0(reg)
    load_setter(reg)


_load_d1 = load


def load(reg):      # noqa: F811
    _load_d1(reg)
    load_constructors(reg)


def load_constructors(reg):
    """Parameter validation at construction (C14: 'parameters outside the documented domain are rejected at construction,
    and every parameter set inside it yields a usable distribution'): for the distributions that are not compositions of
    gammas, the constructor raises TypeError exactly for ill-typed arguments, ValueError exactly for well-typed arguments
    outside the domain, and otherwise establishes the parameter invariant that the class's draw() contract requires.
    Scope (precondition): numeric parameters are plain numbers (not Quantity instances), not infinite; NaN is admitted for
    every parameter with a documented bound and must be rejected (fix 184bf62); parameters without a bound (mu, constant)
    are finite."""
    C14 = ["C14"]
    NEWS = "asref(stream, 'StreamInterface')"
    TY = {"float": "isfloat(%s)", "num": "isnum(%s)", "int": "isint(%s)"}
    N = lambda p: "val(num(%s))" % p
    I = lambda p: "ival(%s)" % p
    # class -> (parameters [(name, kind)], domain over the parameters, [(field, value)], parameter invariant of draw())
    T = {
        "DistBernoulli": ([("p", "float")], "0 <= %s and %s <= 1" % (N("p"), N("p")), [("_p", N("p"))], "0 <= self._p and self._p <= 1"),
        "DistBinomial": ([("n", "int"), ("p", "float")], "0 <= %s and %s <= 1 and %s > 0" % (N("p"), N("p"), I("n")),
                         [("_p", N("p")), ("_n", I("n"))], "0 <= self._p and self._p <= 1 and self._n > 0"),
        "DistDiscreteUniform": ([("lo", "int"), ("hi", "int")], "%s < %s" % (I("lo"), I("hi")), [("_lo", I("lo")), ("_hi", I("hi"))],
                                "self._lo <= self._hi"),
        "DistConstant": ([("constant", "num")], "True", [("_constant", N("constant"))], "True"),
        "DistExponential": ([("mean", "num")], "%s > 0" % N("mean"), [("_mean", N("mean"))], "self._mean > 0"),
        "DistPoisson": ([("rate", "num")], "%s > 0" % N("rate"), [("_rate", N("rate"))], "self._rate > 0 and self._expl > 0 and self._expl < 1"),
        "DistTriangular": ([("lo", "num"), ("mode", "num"), ("hi", "num")],
                           "%s <= %s and %s <= %s and %s != %s" % (N("lo"), N("mode"), N("mode"), N("hi"), N("lo"), N("hi")),
                           [("_lo", N("lo")), ("_mode", N("mode")), ("_hi", N("hi"))],
                           "self._lo <= self._mode and self._mode <= self._hi and self._lo < self._hi"),
        "DistUniform": ([("lo", "num"), ("hi", "num")], "%s < %s" % (N("lo"), N("hi")), [("_lo", N("lo")), ("_hi", N("hi"))],
                        "self._lo < self._hi"),
        "DistWeibull": ([("alpha", "num"), ("beta", "num")], "%s > 0 and %s > 0" % (N("alpha"), N("beta")),
                        [("_alpha", N("alpha")), ("_beta", N("beta"))], "self._alpha > 0 and self._beta > 0"),
        "DistNormal": ([("mu", "num"), ("sigma", "num")], "%s > 0" % N("sigma"), [("_mu", N("mu")), ("_sigma", N("sigma"))],
                       "self._sigma > 0 and not self._have_saved_gaussian"),
    }
    simple = list(T)
    c = reg.contracts["Distribution._set_stream"]
    c.for_classes = list(dict.fromkeys((c.for_classes or []) + [k for k in simple if k != "DistNormal"]))
    for cls, (params, domain, fields, inv) in T.items():
        names = [p for p, _ in params]
        types_ok = " and ".join(TY[k] % p for p, k in params)
        unbounded = {"DistNormal": ["mu"], "DistConstant": ["constant"]}.get(cls, [])
        plain = ["not isref(%s)" % p for p in names] + \
                ["not isnum(%s) or isfin(%s)%s" % (p, p, "" if p in unbounded else " or isnan(num(%s))" % p) for p in names]
        notnan = " and ".join("not isnan(num(%s))" % p for p, k in params if k != "int" and p not in unbounded) or "True"
        domain = "(%s) and (%s)" % (notnan, domain)
        reg.contract("%s.__init__" % cls, params=dict({"stream": "obj"}, **{p: "obj" for p in names}),
                     requires=plain,
                     raises=[("TypeError", "not instance(stream, 'StreamInterface') or not (%s)" % types_ok),
                             ("ValueError", "instance(stream, 'StreamInterface') and (%s) and not (%s)" % (types_ok, domain))],
                     on_raise="any",
                     ensures=["self._stream == %s" % NEWS] + ["self.%s == %s" % (f, v) for f, v in fields] + [inv],
                     modifies=["self.*"], for_classes=[cls] + (["DistLogNormal"] if cls == "DistNormal" else []),
                     props=C14)

    # geometric / negative binomial: the constructor also takes log(1 - p), which rejects p = 1 (math domain error = ValueError)
    P = N("p")
    GEO_INV = "0 <= self._p and self._p < 1 and self._lnp <= 0 and iff(self._lnp == 0, self._p == 0)"
    reg.contract("DistGeometric.__init__", params={"stream": "obj", "p": "obj"},
                 requires=["not isref(p)", "not isnum(p) or isfin(p) or isnan(num(p))"],
                 raises=[("TypeError", "not instance(stream, 'StreamInterface') or not isfloat(p)"),
                         ("ValueError", "instance(stream, 'StreamInterface') and isfloat(p) and (isnan(num(p)) or not (0 <= %s and %s < 1))" % (P, P))],
                 on_raise="any", ensures=["self._stream == %s" % NEWS, "self._p == %s" % P, GEO_INV],
                 modifies=["self.*"], props=C14)
    reg.contract("DistNegBinomial.__init__", params={"stream": "obj", "s": "obj", "p": "obj"},
                 requires=["not isref(p) and not isref(s)", "not isnum(p) or isfin(p) or isnan(num(p))"],
                 raises=[("TypeError", "not instance(stream, 'StreamInterface') or not isfloat(p) or not isint(s)"),
                         ("ValueError", "instance(stream, 'StreamInterface') and isfloat(p) and isint(s)"
                                        " and (isnan(num(p)) or not (0 <= %s and %s < 1) or ival(s) <= 0)" % (P, P))],
                 on_raise="any", ensures=["self._stream == %s" % NEWS, "self._p == %s" % P, "self._s == ival(s)", GEO_INV + " and self._s > 0"],
                 modifies=["self.*"], props=C14)
    c.for_classes = list(dict.fromkeys(c.for_classes + ["DistGeometric", "DistNegBinomial"]))

    # compositions of gammas: the arguments are validated first, the stream last (super().__init__ -> the class's own
    # _set_stream, which builds the inner gamma distributions on the same stream)
    def coh(d):
        return "%s is not None and %s._stream == self._stream and %s._shape > 0 and %s._scale > 0" % (d, d, d, d)
    COMP = {
        "DistPearson5": ([("alpha", "num"), ("beta", "num")], [("_alpha", N("alpha")), ("_beta", N("beta"))],
                         "self._alpha > 0 and self._beta > 0 and " + coh("self._dist")),
        "DistPearson6": ([("alpha1", "num"), ("alpha2", "num"), ("beta", "num")],
                         [("_alpha1", N("alpha1")), ("_alpha2", N("alpha2")), ("_beta", N("beta"))],
                         "self._alpha1 > 0 and self._alpha2 > 0 and self._beta > 0 and " + coh("self._dist1") + " and " + coh("self._dist2")),
        "DistBeta": ([("alpha1", "num"), ("alpha2", "num")], [("_alpha1", N("alpha1")), ("_alpha2", N("alpha2"))],
                     "self._alpha1 > 0 and self._alpha2 > 0 and " + coh("self._dist1") + " and " + coh("self._dist2")),
    }
    for cls, (params, fields, inv) in COMP.items():
        names = [p for p, _ in params]
        types_ok = " and ".join(TY[k] % p for p, k in params)
        domain = " and ".join("not isnan(num(%s)) and %s > 0" % (p, N(p)) for p in names)
        reg.contract("%s.__init__" % cls, params=dict({"stream": "obj"}, **{p: "obj" for p in names}),
                     requires=["not isref(%s)" % p for p in names] + ["not isnum(%s) or isfin(%s) or isnan(num(%s))" % (p, p, p) for p in names],
                     raises=[("TypeError", "not (%s) or ((%s) and not instance(stream, 'StreamInterface'))" % (types_ok, domain)),
                             ("ValueError", "(%s) and not (%s)" % (types_ok, domain))],
                     on_raise="any",
                     ensures=["self._stream == %s" % NEWS] + ["self.%s == %s" % (f, v) for f, v in fields] + [inv],
                     modifies=["self.*", "heap.DistGamma._stream", "heap.DistGamma._shape", "heap.DistGamma._scale"], props=C14)
    SC, K = N("scale"), "ival(k)"
    EDOM = "not isnan(num(scale)) and %s > 0 and %s > 0" % (SC, K)
    reg.contract("DistErlang.__init__", params={"stream": "obj", "scale": "obj", "k": "obj"},
                 requires=["not isref(scale) and not isref(k)", "not isnum(scale) or isfin(scale) or isnan(num(scale))"],
                 raises=[("TypeError", "not (isnum(scale) and isint(k)) or ((%s) and not instance(stream, 'StreamInterface'))" % EDOM),
                         ("ValueError", "isnum(scale) and isint(k) and not (%s)" % EDOM)],
                 on_raise="any",
                 ensures=["self._stream == %s" % NEWS, "self._scale == %s" % SC, "self._k == %s" % K,
                          "self._scale > 0 and self._k > 0 and implies(self._k >= 10, " + coh("self._dist_gamma") + ")"],
                 modifies=["self.*", "heap.DistGamma._stream", "heap.DistGamma._shape", "heap.DistGamma._scale"], props=C14)

    # DistNormalTrunc.draw is the one sampling algorithm not under contract (erf_inv accuracy guards): bounded stand-in
    def normaltrunc_sweep(table):
        from pyvc.ground import run_native
        res = run_native({"function": "DistNormalTrunc.draw", "obligation": "bounded-sweep-normaltrunc", "property": "C14"})
        return [("BOUNDED: DistNormalTrunc.draw on 4 parameter sets (bounds near and far in the tails) x scripted streams over the "
                 "extreme uniforms {0, 5e-324, 1e-300, .25, .5, .75, 1-2^-53}: every draw lies within [lo, hi], none raises",
                 not res.get("reproduced"), res.get("observed") or res.get("note"))]
    reg.ground_obligation("BOUNDED stand-in: native sweep of DistNormalTrunc.draw over extreme stream outputs", C14, normaltrunc_sweep)

    # NaN is outside every documented domain but passes guards of the form `x <= 0` (a comparison with NaN is false):
    # witness of the known finding, evaluated natively
    def nan_witness(table):
        from pyvc.ground import run_native
        res = run_native({"function": "DistExponential.__init__", "obligation": "witness-nan-parameters", "property": "C14"})
        return [("every distribution rejects a NaN parameter at construction", not res.get("reproduced"),
                 res.get("observed") or res.get("note"))]
    reg.ground_obligation("witness: NaN parameters pass the domain guards of the constructors", C14, nan_witness)
