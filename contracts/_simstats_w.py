"""Sidecar contracts: event-based and simulation *weighted* tally (C11, and the event-publishing variant of C10).

Mirrors contracts/simstats.py for the weighted family: a WEIGHT_DATA notification carries a 2-tuple
(weight, value); it is exactly one register of that pair; WARMUP is initialize.
(loaded by contracts/simstats.py after the counter/tally families)
"""


def load_weighted(reg, AX, CBERR, ONRAISE, LISTENED, WARM, EV, CONTENT, ETY, SUB):
    C11, C10 = ["C11"], ["C10"]
    WF = ["EventBasedWeightedTally", "SimWeightedTally"]
    WDATA = "StatEvents.WEIGHT_DATA_EVENT"
    WSTATE = ("'_listeners', '_n', '_n_nonzero', '_sum_of_weights', '_weighted_mean', '_weight_times_variance', '_weighted_sum', "
              "'_min', '_max', 'g_obs', 'g_nz', 'g_W', 'g_A', 'g_B'")
    WKEEP = "unchanged_except(self, %s)" % WSTATE
    QW = ["self." + f for f in ("_n", "_n_nonzero", "_sum_of_weights", "_weighted_mean", "_weight_times_variance", "_weighted_sum",
                                 "_min", "_max", "g_obs", "g_nz", "g_W", "g_A", "g_B")]
    for c in ("SimWeightedTally",):
        pass
    for q in ("WeightedTally.register", "WeightedTally.initialize"):
        reg.contracts[q].for_classes = list(dict.fromkeys(reg.contracts[q].for_classes + WF))
    FIN = lambda v: "not isref(%s) and (not isnum(%s) or isnan(num(%s)) or isfin(%s))" % (v, v, v, v)
    WV, XV = "val(num(weight))", "val(num(value))"
    APPEND = ("self.g_obs == store(old(self.g_obs), old(self._n), %s) and self.g_W == old(self.g_W) + %s"
              " and self.g_A == old(self.g_A) + %s * %s and self.g_B == old(self.g_B) + %s * %s * %s"
              " and self.g_nz == old(self.g_nz) + ite(%s > 0, 1, 0)" % (XV, WV, WV, XV, WV, XV, XV, WV))
    for q in ("EventBasedWeightedTally._fire_events", "SimWeightedTally._fire_events"):
        reg.contract(q, params={"value": "obj"}, requires=["WI(self)", "PWF(self)"], may_raise=CBERR, on_raise="any",
                     ensures=["WI(self)", "PWF(self)", "unchanged_except(self, '_listeners')"],
                     exc_ensures=["unchanged_except(self, '_listeners')"], modifies=["heap.*"],
                     havoc_only_if=LISTENED, props=C11 + (C10 if q.startswith("EventBased") else []), axiom_sets=AX)
    BADW = "isnum(weight) and isnum(value) and (isnan(num(value)) or isnan(num(weight)) or val(num(weight)) < 0)"
    reg.contract("EventBasedWeightedTally.register", params={"weight": "obj", "value": "obj"},
                 requires=["WI(self)", "PWF(self)", FIN("weight"), FIN("value")],
                 raises=[("TypeError", "not isnum(weight) or not isnum(value)"), ("ValueError", BADW)],
                 may_raise=CBERR, on_raise=ONRAISE,
                 ensures=["WI(self)", "PWF(self)", WKEEP, "self._n == old(self._n) + 1", APPEND],
                 modifies=["heap.*"], havoc_only_if=LISTENED, quiet_modifies=QW, for_classes=WF, props=C11 + C10, axiom_sets=AX)
    reg.contract("EventBasedWeightedTally.initialize", params={}, requires=["PWF(self)"], may_raise=CBERR, on_raise="any",
                 ensures=["WI(self)", "PWF(self)", WKEEP, "self._n == 0 and self.g_nz == 0"], modifies=["heap.*"],
                 havoc_only_if=LISTENED, quiet_modifies=QW, for_classes=WF, props=C11 + C10, axiom_sets=AX)
    for q in ("EventBasedWeightedTally._fire_initialized", "SimWeightedTally._fire_initialized"):
        reg.contract(q, params={}, inline=True)
    # the payload of a weighted observation: a 2-tuple of plain numbers
    C0, C1 = "titem(%s, 0)" % CONTENT, "titem(%s, 1)" % CONTENT
    PAIR = "istuple(%s) and tlen(%s) == 2" % (CONTENT, CONTENT)
    NUMS = "isnum(%s) and isnum(%s)" % (C0, C1)
    PAIR_FIN = "implies(%s, %s and %s)" % (PAIR, FIN(C0), FIN(C1))
    W0, X0 = "val(num(%s))" % C0, "val(num(%s))" % C1
    BADPAIR = "(%s and %s and (isnan(num(%s)) or isnan(num(%s)) or %s < 0))" % (PAIR, NUMS, C0, C1, W0)
    OBS = ("self._n == old(self._n) + 1 and self.g_obs == store(old(self.g_obs), old(self._n), old(%s))"
           " and self.g_W == old(self.g_W) + old(%s) and self.g_A == old(self.g_A) + old(%s * %s)" % (X0, W0, W0, X0))
    reg.contract("EventBasedWeightedTally.notify", params={"event": "obj"},
                 requires=["WI(self)", "PWF(self)", "instance(event, 'Event')", PAIR_FIN],
                 raises=[("TypeError", "%s == %s and (not istuple(%s) or (tlen(%s) == 2 and not (%s)))" % (ETY, WDATA, CONTENT, CONTENT, NUMS)),
                         ("ValueError", "%s != %s or (istuple(%s) and tlen(%s) != 2) or %s" % (ETY, WDATA, CONTENT, CONTENT, BADPAIR))],
                 may_raise=CBERR, on_raise=ONRAISE,
                 ensures=["WI(self)", "PWF(self)", WKEEP, OBS],
                 modifies=["heap.*"], havoc_only_if=LISTENED, quiet_modifies=QW, for_classes=WF, props=C11 + C10, axiom_sets=AX)
    reg.contract("SimWeightedTally.notify", params={"event": "obj"},
                 requires=["WI(self)", "PWF(self)", "instance(event, 'Event')", "implies(%s, %s)" % (SUB, PAIR_FIN)],
                 raises=[("TypeError", "%s and (not istuple(%s) or (tlen(%s) == 2 and not (%s)))" % (SUB, CONTENT, CONTENT, NUMS)),
                         ("ValueError", "%s and ((istuple(%s) and tlen(%s) != 2) or %s)" % (SUB, CONTENT, CONTENT, BADPAIR))],
                 may_raise=CBERR, on_raise=ONRAISE,
                 ensures=["WI(self)", "PWF(self)", "self._event_types == old(self._event_types)",
                          "implies(old(%s), %s)" % (SUB, OBS),
                          "implies(not old(%s) and old(%s) == %s, self._n == 0 and self.g_nz == 0)" % (SUB, ETY, WARM),
                          "implies(not old(%s) and old(%s) != %s, unchanged_except(self))" % (SUB, ETY, WARM)],
                 modifies=["heap.*"], havoc_only_if=LISTENED, quiet_modifies=QW, props=C11, axiom_sets=AX)
