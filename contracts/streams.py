"""Sidecar contracts: MersenneTwister (C12), seed updaters (C13).

random.Random is a dependency with an assumed contract over an abstract state S (ghost field
Random.g_S): seed(k): S' = Seed(k); random(): returns Out(S) in [0,1), S' = Next(S);
getstate/setstate: identity on S.  Distinct Random instances share nothing (separate objects).
"""
import z3

from pyvc import sorts as S
from pyvc.sorts import SV, INT, REAL, REF
from pyvc.engine import mk_none


def load(reg):
    C12 = ["C12"]
    reg.trust("random.Random: abstract state S; seed(k): S'=Seed(k); random(): result=Out(S) with 0<=Out(S)<1, S'=Next(S); "
              "getstate()/setstate(s): identity on S; instances are independent objects")
    reg.declare_fields("Random", g_S="int", ghost=("g_S",))
    reg.declare_fields("MersenneTwister", _original_seed="int", _seed="int", _random="ref:Random")
    Seed = reg.ufun("RandSeed", z3.IntSort(), z3.IntSort())
    Next = reg.ufun("RandNext", z3.IntSort(), z3.IntSort())
    Out = reg.ufun("RandOut", z3.IntSort(), z3.RealSort())
    reg.specfun("Seed", lambda eng, k: SV(INT, Seed(eng.coerce(k, INT)[0].t)))
    reg.specfun("Next", lambda eng, s: SV(INT, Next(s.t)))
    reg.specfun("Out", lambda eng, s: SV(REAL, Out(s.t)))

    def construct_Random(eng, st, args, kwargs):
        r = eng.A0 + st.nalloc
        st.nalloc = st.nalloc + 1
        st.assume(S.typeof(r) == eng.class_id("Random"))
        return [(st, SV(REF("Random"), z3.simplify(r)))]
    reg.specfun("construct_Random", construct_Random)

    def r_seed(eng, s, recv, args, kwargs):
        k = eng.coerce(args[0], INT)[0]
        eng.store_field(s, recv.t, "Random", "g_S", SV(INT, Seed(k.t)))
        return [(s, mk_none())]

    def r_random(eng, s, recv, args, kwargs):
        cur = eng.load_field(s, recv.t, "Random", "g_S")
        out = Out(cur.t)
        s.assume(z3.And(out >= 0, out < 1))
        eng.store_field(s, recv.t, "Random", "g_S", SV(INT, Next(cur.t)))
        return [(s, SV(REAL, out))]

    def r_getstate(eng, s, recv, args, kwargs):
        return [(s, eng.load_field(s, recv.t, "Random", "g_S"))]

    def r_setstate(eng, s, recv, args, kwargs):
        eng.store_field(s, recv.t, "Random", "g_S", eng.coerce(args[0], INT)[0])
        return [(s, mk_none())]
    reg.specfun("dep_Random_seed", r_seed)
    reg.specfun("dep_Random_random", r_random)
    reg.specfun("dep_Random_getstate", r_getstate)
    reg.specfun("dep_Random_setstate", r_setstate)

    ST = "self._random.g_S"
    OST = "old(self._random.g_S)"
    RMOD = ["self._random.g_S"]
    # seed None -> wall-clock seed: outside the property's quantifier (explicit seeds); allowed, no claim
    reg.contract("MersenneTwister.__init__", params={"seed": "obj"},
                 raises=[("TypeError", "not isnone(seed) and not isint(seed)")],
                 ensures=["implies(isint(seed), self._original_seed == ival(seed) and self._seed == ival(seed)"
                          " and %s == Seed(ival(seed)))" % ST],
                 modifies=["self.*"], on_raise="any", effects="wall-clock when seed is None", props=C12)
    reg.contract("MersenneTwister.next_float", params={}, returns="real",
                 ensures=["result == Out(%s)" % OST, "%s == Next(%s)" % (ST, OST), "0 <= result and result < 1",
                          "self._random == old(self._random)"],
                 modifies=RMOD, props=C12)
    reg.contract("MersenneTwister.next_bool", params={}, returns="bool",
                 ensures=["result == (Out(%s) < 0.5)" % OST, "%s == Next(%s)" % (ST, OST)],
                 modifies=RMOD, props=C12)
    reg.contract("MersenneTwister.next_int", params={"lo": "int", "hi": "int"}, returns="int",
                 ensures=["result == lo + floor((hi - lo + 1) * Out(%s))" % OST, "%s == Next(%s)" % (ST, OST),
                          # integer draws lie in the requested inclusive range, for every range
                          "implies(lo <= hi, lo <= result and result <= hi)"],
                 modifies=RMOD, props=C12)
    reg.contract("MersenneTwister.seed", params={}, returns="int", ensures=["result == self._seed"], pure=True, props=C12)
    reg.contract("MersenneTwister.original_seed", params={}, returns="int",
                 ensures=["result == self._original_seed"], pure=True, props=C12)
    reg.contract("MersenneTwister.set_seed", params={"seed": "int"},
                 ensures=["self._seed == seed", "%s == Seed(seed)" % ST, "self._original_seed == old(self._original_seed)"],
                 modifies=["self._seed"] + RMOD, props=C12)
    reg.contract("MersenneTwister.reset", params={},
                 ensures=["%s == Seed(self._seed)" % ST, "self._seed == old(self._seed)"],
                 modifies=["self._seed"] + RMOD, props=C12)
    reg.contract("MersenneTwister.save_state", params={}, returns="int",
                 ensures=["result == %s" % ST], pure=True, props=C12)
    reg.contract("MersenneTwister.restore_state", params={"state": "int"},
                 ensures=["%s == state" % ST], modifies=RMOD, props=C12)

    def floor_fn(eng, x):
        return SV(INT, z3.ToInt(eng.coerce(x, REAL)[0].t))
    reg.specfun("floor", floor_fn)

    T2 = {"a": "ref:MersenneTwister", "b": "ref:MersenneTwister", "lo": "int", "hi": "int", "k": "int"}
    OWN = "a is not b and a._random != b._random"      # each stream owns its generator (frame scan below)
    reg.lemma("streams_twin", """
def twin(a, b, lo, hi, k):
    assume(%s and a._random.g_S == b._random.g_S)
    x = a.next_float()
    y = b.next_float()
    assert x == y, "same float"
    i = a.next_int(lo, hi)
    j = b.next_int(lo, hi)
    assert i == j, "same int"
    p = a.next_bool()
    q = b.next_bool()
    assert p == q, "same bool"
    assert a._random.g_S == b._random.g_S, "states stay equal: every further interleaving agrees (induction)"
""" % OWN, params=T2, props=C12)
    reg.lemma("streams_same_seed", """
def same_seed(a, b, lo, hi, k):
    assume(%s)
    a.set_seed(k)
    b.set_seed(k)
    assert a._random.g_S == b._random.g_S, "equal seeds give equal states"
""" % OWN, params=T2, props=C12)
    reg.lemma("streams_reset_replays", """
def reset_replays(a, b, lo, hi, k):
    a.set_seed(k)
    x1 = a.next_float()
    i1 = a.next_int(lo, hi)
    a.reset()
    x2 = a.next_float()
    i2 = a.next_int(lo, hi)
    assert x1 == x2 and i1 == i2, "reset replays the sequence of the current seed"
""", params=T2, props=C12)
    reg.lemma("streams_restore_continues", """
def restore_continues(a, b, lo, hi, k):
    st = a.save_state()
    x1 = a.next_float()
    i1 = a.next_int(lo, hi)
    p1 = a.next_bool()
    a.restore_state(st)
    x2 = a.next_float()
    i2 = a.next_int(lo, hi)
    p2 = a.next_bool()
    assert x1 == x2 and i1 == i2 and p1 == p2, "restoring continues exactly as after the save"
""", params=T2, props=C12)
    reg.lemma("streams_independent", """
def independent(a, b, lo, hi, k):
    assume(%s)
    s0 = a._random.g_S
    x = b.next_float()
    i = b.next_int(lo, hi)
    p = b.next_bool()
    b.set_seed(k)
    b.reset()
    assert a._random.g_S == s0, "draws / reseeding of one stream never alter another"
    y = a.next_float()
    assert y == Out(s0), "and its next draw is what it would have been"
""" % OWN, params=T2, props=C12)

    # bounded stand-in (labelled BOUNDED, not counted as proved): the real-number model cannot see float rounding
    # for ranges beyond 2^53; the native sweep runs next_int on single-value, negative and huge ranges, twin
    # streams, reset and restore on the real class
    def native_sweep(table):
        from pyvc.ground import run_native
        res = run_native({"function": "MersenneTwister.next_int", "obligation": "bounded-sweep", "property": "C12"})
        return [("BOUNDED: twin/reset/restore and integer-range sweep incl. ranges beyond 2^53 (5 seeds x 120 interleaved draws)",
                 not res.get("reproduced"), res.get("observed") or res.get("note"))]
    reg.ground_obligation("BOUNDED stand-in: native sweep of MersenneTwister (huge integer ranges, float rounding)", C12, native_sweep)

    # frame scan (ground obligation): the generator object of a stream is allocated in __init__ and
    # never re-assigned or handed out, so two streams never share one
    def own_scan(table):
        writers = table.assignments_to_field("_random")
        ok = writers == ["MersenneTwister.__init__"]
        return ok, "functions assigning <x>._random: %s (expected exactly ['MersenneTwister.__init__'])" % writers
    reg.ground_obligation("MersenneTwister._random assigned only in __init__ (ownership)", C12, own_scan)


def load_updaters(reg):
    C13 = ["C13"]
    M = 4294967296
    reg.declare_fields("StreamUpdater", g_calls="int", ghost=("g_calls",))
    reg.declare_fields("StreamSeedUpdater", _stream_seeds="map[str,seq[int]]", _fallback_stream_updater="ref:StreamUpdater")
    jh = reg.ufun("jhash", z3.StringSort(), z3.IntSort())
    ordf = reg.ufun("ord_chr", z3.StringSort(), z3.IntSort())
    reg.specfun("jhash", lambda eng, s: SV(INT, jh(s.t)))
    s_, c_ = z3.String("ax_js"), z3.String("ax_jc")
    note = "definition of the Java-style string hash jhash (recursive definition over the characters)"
    reg.scoped_axiom("jhash", jh(z3.StringVal("")) == 0, note)
    reg.scoped_axiom("jhash", z3.ForAll([s_, c_], z3.Implies(z3.Length(c_) == 1,
                     jh(z3.Concat(s_, c_)) == (31 * jh(s_) + ordf(c_)) % M), patterns=[jh(z3.Concat(s_, c_))]), note)
    reg.scoped_axiom("jhash", z3.ForAll([s_], z3.And(jh(s_) >= 0, jh(s_) < M), patterns=[jh(s_)]), note)
    reg.contract("SimpleStreamUpdater._hash_code", params={"text": "str"}, returns="int",
                 ensures=["result == jhash(text)", "0 <= result and result < %d" % M],
                 pure=True, effects="deterministic", props=C13, axiom_sets=("jhash",))
    reg.loop_invariant("SimpleStreamUpdater._hash_code", loop=0,
                       inv=["0 <= _i and _i <= len(text)", "h == jhash(strprefix(text, _i))", "0 <= h and h < %d" % M],
                       # proof step (string theory only, proved before it is used): the prefix read so far is the previous
                       # prefix extended by the character just consumed -- the shape the defining axiom of jhash matches on
                       ghost_pre=[("i0", "_i")],
                       hints=["strprefix(text, i0 + 1) == strprefix(text, i0) + strchar(text, i0)"],
                       modifies=[])
    reg.specfun("strchar", lambda eng, s, i: SV(S.STR, z3.SubString(s.t, eng.coerce(i, INT)[0].t, 1)))
    reg.specfun("strprefix", lambda eng, s, i: SV(S.STR, z3.SubString(s.t, 0, eng.coerce(i, INT)[0].t)))

    ST = "asref(stream, 'MersenneTwister')"
    BADT = "not isstr(stream_id) or not instance(stream, 'StreamInterface') or not isint(replication_nr)"
    NEG = "isstr(stream_id) and instance(stream, 'StreamInterface') and isint(replication_nr) and ival(replication_nr) < 0"
    reg.define("SIMPLE_SEED(name, orig, r)", "orig + r * (1000037 + jhash(name))")
    reg.contract("SimpleStreamUpdater.update_seed",
                 params={"stream_id": "obj", "stream": "obj", "replication_nr": "obj"},
                 raises=[("TypeError", BADT), ("ValueError", NEG)],        # strict frame: stream untouched
                 ensures=[# the new seed is a function of exactly (name, original seed, replication number)
                          "%s._seed == SIMPLE_SEED(strval(stream_id), old(%s._original_seed), ival(replication_nr))" % (ST, ST),
                          "%s._random.g_S == Seed(%s._seed)" % (ST, ST),
                          "%s._original_seed == old(%s._original_seed)" % (ST, ST)],
                 modifies=["%s._seed" % ST, "%s._random.g_S" % ST],
                 effects="deterministic", props=C13, axiom_sets=("jhash",))
    reg.specfun("strval", lambda eng, x: eng.coerce(x, S.STR)[0])
    # interface contract of an updater used as fallback (user supplied or one of the two above)
    reg.contract("StreamUpdater.update_seed", abstract=True,
                 params={"key": "obj", "stream": "obj", "replication_nr": "obj"},
                 may_raise=[("TypeError", "True"), ("ValueError", "True")],
                 modifies=["heap.MersenneTwister._seed", "heap.Random.g_S", "self.g_calls"],
                 ensures=["self.g_calls == old(self.g_calls) + 1"],
                 note="interface contract of the fallback updater: may reseed streams, may reject", props=C13)
    TAB = "self._stream_seeds"
    SID = "strval(stream_id)"
    R = "ival(replication_nr)"
    INTABLE = "has(%s, %s)" % (TAB, SID)
    reg.contract("StreamSeedUpdater.update_seed",
                 params={"stream_id": "obj", "stream": "obj", "replication_nr": "obj"},
                 raises=[("TypeError", BADT)],
                 may_raise=[("ValueError", "(%s) or (isstr(stream_id) and instance(stream, 'StreamInterface') and isint(replication_nr)"
                                           " and (not %s or %s >= len(get(%s, %s))))" % (NEG, INTABLE, R, TAB, SID)),
                            ("TypeError", "isstr(stream_id) and not %s" % INTABLE)],
                 on_raise=["heap.MersenneTwister._seed", "heap.Random.g_S", "self._fallback_stream_updater.g_calls"],
                 exc_ensures=[# a replication number that is negative, ill-typed or beyond the seed list leaves the stream alone
                              "implies(not (isstr(stream_id) and instance(stream, 'StreamInterface') and not %s),"
                              " %s._seed == old(%s._seed) and %s._random.g_S == old(%s._random.g_S))"
                              % (INTABLE, ST, ST, ST, ST)],
                 ensures=[# configured stream: the r-th entry of its seed list
                          "implies(%s, %s < len(get(%s, %s)) and %s._seed == get(%s, %s)[%s]"
                          " and %s._random.g_S == Seed(%s._seed))" % (INTABLE, R, TAB, SID, ST, TAB, SID, R, ST, ST),
                          # unlisted stream: served by the fallback updater (exactly one delegation)
                          "implies(not %s, self._fallback_stream_updater.g_calls == old(self._fallback_stream_updater.g_calls) + 1)" % INTABLE,
                          "%s._original_seed == old(%s._original_seed)" % (ST, ST)],
                 modifies=["heap.MersenneTwister._seed", "heap.Random.g_S", "self._fallback_stream_updater.g_calls"],
                 effects="deterministic", props=C13)


_load_mt = load


def load(reg):      # noqa: F811
    _load_mt(reg)
    load_updaters(reg)


def load_update_seeds(reg):
    C13 = ["C13"]
    R = "ival(replication_nr)"
    G = "get(streams, %s)"
    reg.define("STREAMS_SEPARATE(m)",
               "forall('a:str, b:str', implies(has(m, a) and has(m, b) and a != b,"
               " get(m, a) != get(m, b) and get(m, a)._random != get(m, b)._random))")
    reg.contract("StreamUpdater.update_seeds",
                 params={"streams": "map[str,ref:MersenneTwister]", "replication_nr": "obj"},
                 requires=["STREAMS_SEPARATE(streams)", "nodupstr(keys(streams))"],
                 raises=[("TypeError", "not isint(replication_nr)"),
                         ("ValueError", "isint(replication_nr) and %s < 0 and len(keys(streams)) > 0" % R)],
                 on_raise="any",
                 ensures=[# every stream gets the seed determined by its own (name, original seed, r): the result
                          # does not depend on the order in which the streams are listed
                          "forall('k:str', implies(has(streams, k), get(streams, k)._seed =="
                          " SIMPLE_SEED(k, old(get(streams, k)._original_seed), %s)"
                          " and get(streams, k)._random.g_S == Seed(get(streams, k)._seed)))" % R],
                 modifies=["heap.MersenneTwister._seed", "heap.Random.g_S"],
                 for_classes=["SimpleStreamUpdater"], effects="deterministic", props=C13, axiom_sets=("jhash", "seqstr"))
    reg.loop_invariant("StreamUpdater.update_seeds", loop=0,
                       inv=["0 <= _i and _i <= len(_seq)", "_seq == keys(streams)",
                            "implies(_i > 0, %s >= 0)" % R,
                            "forall('k:str', implies(has(streams, k), get(streams, k)._original_seed == old(get(streams, k)._original_seed)))",
                            "forall('k:str', implies(has(streams, k) and indexof(_seq, k) < _i, get(streams, k)._seed =="
                            " SIMPLE_SEED(k, old(get(streams, k)._original_seed), %s)"
                            " and get(streams, k)._random.g_S == Seed(get(streams, k)._seed)))" % R],
                       modifies=["heap.MersenneTwister._seed", "heap.Random.g_S"])
    # sequences of strings are sequences of string ids (Seq(Int)): the 'seqref' lemmas apply; the
    # bijection between strings and their ids is the axiom set 'strid'
    from pyvc import sorts as _S
    nd = reg.ufun("nodup_ref", z3.SeqSort(z3.IntSort()), z3.BoolSort())
    reg.specfun("nodupstr", lambda eng, s: mk_bool_(nd(s.t)))
    for ax in _S.string_id_axioms():
        reg.scoped_axiom("seqstr", ax, "strings stored in sequences / used as dict keys are represented by integer ids (bijection sid/sof)")
    for f, n in list(reg.axiom_sets.get("seqref", [])):
        reg.scoped_axiom("seqstr", f, n)
    note = "strings in sequences are represented by ids through a bijection (modelling choice)"
    reg.trust(note)


def mk_bool_(t):
    from pyvc.engine import mk_bool
    return mk_bool(t)


_load_upd = load


def load(reg):      # noqa: F811
    _load_upd(reg)
    load_update_seeds(reg)
