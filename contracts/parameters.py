"""Sidecar contracts: input parameters and the model-level round trip (property C18).

PV(p): the current value satisfies the declared rule of p's class (type, bounds, option list,
quantity type + SI bounds).  set_value: read-only or invalid => raises and the value is unchanged;
otherwise the value becomes the argument.  modifies is {_value} for every set_value, so the
default never changes (frame); _default_value/_read_only are written only in InputParameter.__init__
(frame scan).  Map: key -> child, sorted by display priority (stable), addressed by dotted keys.
"""
import z3

from pyvc import sorts as S
from pyvc.sorts import SV, INT, STR, REF, SEQ, MAP, Ty
from pyvc.engine import mk_bool, mk_none


def load(reg):
    C18 = ["C18"]
    reg.declare_fields("InputParameter", _key="str", _name="str", _description="obj", _default_value="obj",
                       _display_priority="xreal", _read_only="bool", _value="obj",
                       _parent="ref:InputParameterMap?")
    reg.declare_fields("InputParameterMap", _value="map[str,ref:InputParameter]")
    reg.declare_fields("InputParameterInt", _min="xreal", _max="xreal", _format="str")
    reg.declare_fields("InputParameterFloat", _min="xreal", _max="xreal", _format="str")
    reg.declare_fields("InputParameterQuantity", _min_si="xreal", _max_si="xreal", _format="str", _type="type")
    reg.declare_fields("InputParameterSelectionList", _options="seq[str]")
    reg.declare_fields("InputParameterUnit", _type="obj")
    reg.declare_fields("DSOLModel", _simulator="obj", _input_parameters="ref:InputParameterMap",
                       _output_statistics="map[str,ref:StatisticsInterface]")

    # ---- declared validity rule per class, as a predicate of (parameter, candidate value)
    reg.define("VALID_Int(p, v)", "isint(v) and num(p._min) <= num(v) and num(v) <= num(p._max)")
    reg.define("VALID_Float(p, v)", "isnum(v) and not isref(v) and num(p._min) <= num(v) and num(v) <= num(p._max)")
    reg.define("VALID_Str(p, v)", "isstr(v)")
    reg.define("VALID_Bool(p, v)", "isbool(v)")
    reg.define("VALID_Sel(p, v)", "isstr(v) and contains(p._options, strval(v))")

    common_init = {"key": "obj", "name": "obj", "default_value": "obj", "display_priority": "obj",
                   "parent": "obj", "description": "obj", "read_only": "obj"}
    PARENT_OK = ("isnone(parent) or (instance(parent, 'InputParameterMap') and MWF(asref(parent, 'InputParameterMap'))"
                 " and nodupstr(keys(asref(parent, 'InputParameterMap')._value))"
                 " and forall('k:str', implies(has(asref(parent, 'InputParameterMap')._value, k),"
                 "     not isnan(PRIO(asref(parent, 'InputParameterMap'), k)))))")
    PM = "asref(parent, 'InputParameterMap')"
    # exceptional exit of a constructor: the parent map is unchanged (no half-built child registered)
    PARENT_UNCHANGED = ("implies(instance(parent, 'InputParameterMap'),"
                        " mapeq(%s._value, old(%s._value)))" % (PM, PM))
    BASE_POST = ["self._key == strval(key)", "same(self._default_value, default_value)", "same(self._value, default_value)",
                 "self._read_only == bval(read_only)",
                 "implies(not isnone(parent), self._parent == %s and has(%s._value, self._key)"
                 " and get(%s._value, self._key) == self and MWF(%s))" % (PM, PM, PM, PM),
                 "implies(isnone(parent), self._parent is None)", "not contains(self._key, '.')", "len(self._key) > 0"]
    ANYERR = [("TypeError", "True"), ("ValueError", "True")]
    INITMOD = ["self.*", "heap.InputParameterMap._value", "heap.InputParameter._parent"]

    reg.contract("InputParameter.__init__", params=dict(common_init),
                 requires=[PARENT_OK], may_raise=ANYERR, on_raise="any",
                 ensures=BASE_POST, exc_ensures=[PARENT_UNCHANGED],
                 modifies=INITMOD, props=[], axiom_sets=("seqstr", "pmap"),
                 for_classes=["InputParameter", "InputParameterInt", "InputParameterFloat", "InputParameterStr",
                              "InputParameterBool", "InputParameterSelectionList", "InputParameterMap"])
    reg.contract("InputParameter.set_value", params={"value": "obj"},
                 raises=[("ValueError", "self._read_only")],
                 ensures=["same(self._value, value)"], modifies=["self._value"], props=C18)

    def value_class(cls, valid, extra_params, extra_post, ro_exc="ValueError", bad_exc="TypeError", range_exc=None):
        params = dict(common_init)
        params.update(extra_params)
        reg.contract("%s.__init__" % cls, params=params, requires=[PARENT_OK], may_raise=ANYERR, on_raise="any",
                     ensures=BASE_POST + extra_post + [valid % ("self", "self._value"), valid % ("self", "self._default_value")],
                     exc_ensures=[PARENT_UNCHANGED], modifies=INITMOD, props=["C18"], axiom_sets=("seqstr", "pmap"))
    # Int / Float: bounds
    bounds = {"min_value": "obj", "max_value": "obj", "format_str": "obj"}
    bpost = ["same(self._min, num(min_value))", "same(self._max, num(max_value))"]
    value_class("InputParameterInt", "VALID_Int(%s, %s)", bounds, bpost)
    value_class("InputParameterFloat", "VALID_Float(%s, %s)", bounds, bpost)
    value_class("InputParameterStr", "VALID_Str(%s, %s)", {}, [])
    value_class("InputParameterBool", "VALID_Bool(%s, %s)", {}, [])
    sel_params = dict(common_init)
    sel_params["options"] = "obj"
    # (SelectionList / Unit / Quantity constructors take a python list / class object: only their
    #  set_value is under contract, the representation invariant below is their precondition)

    def set_value(cls, valid, typecheck, type_exc):
        """read-only -> ValueError; wrong type -> type_exc; out of range -> ValueError; all with the
        value unchanged (strict frame); otherwise value := argument"""
        v = valid % ("self", "value")
        raises = {}
        ro = "self._read_only"
        tc = typecheck % "value"
        if type_exc == "ValueError":
            raises = [("ValueError", "%s or not (%s)" % (ro, v))]
        else:
            raises = [("ValueError", "%s or ((%s) and not (%s))" % (ro, tc, v)),
                      ("TypeError", "not %s and not (%s)" % (ro, tc))]
        reg.contract("%s.set_value" % cls, params={"value": "obj"},
                     # values are plain python values (a Quantity instance is a float subclass and is
                     # handled by InputParameterQuantity only)
                     requires=[valid % ("self", "self._value"), "not isref(value)"],
                     raises=raises,
                     ensures=["same(self._value, value)", valid % ("self", "self._value"),
                              "same(self._default_value, old(self._default_value))"],
                     modifies=["self._value"], props=C18, axiom_sets=("seqstr",))
    set_value("InputParameterInt", "VALID_Int(%s, %s)", "isint(%s)", "TypeError")
    set_value("InputParameterFloat", "VALID_Float(%s, %s)", "isnum(%s)", "TypeError")
    set_value("InputParameterStr", "VALID_Str(%s, %s)", "isstr(%s)", "ValueError")
    set_value("InputParameterBool", "VALID_Bool(%s, %s)", "isbool(%s)", "TypeError")
    set_value("InputParameterSelectionList", "VALID_Sel(%s, %s)", "isstr(%s)", "TypeError")
    reg.contracts["InputParameterSelectionList.set_value"].for_classes = ["InputParameterSelectionList", "InputParameterUnit"]
    # class invariant of every InputParameterQuantity object (established by its constructor -- an assumed contract -- and kept
    # because the three fields are written by constructors only: frame scan below): the type is a quantity class, the bounds are numbers
    def qparam_inv(eng, st):
        import z3 as _z3
        # only units of the parameter / model modules can reach a quantity parameter: elsewhere the hypothesis is dropped
        if getattr(eng.func, "module", None) not in ("parameters", "model") and not str(getattr(eng, "unit", "")).startswith("lemma:model"):
            return _z3.BoolVal(True)
        from pyvc import sorts as _S
        r = _z3.Int("qp_r")
        ty = eng.heap_arr(st, "InputParameterQuantity._type", _S.parse_type("type"))
        lo = eng.heap_arr(st, "InputParameterQuantity._min_si", _S.parse_type("xreal"))
        hi = eng.heap_arr(st, "InputParameterQuantity._max_si", _S.parse_type("xreal"))
        qids = [eng.class_id(c) for c in eng.table.subclasses("Quantity") if c != "Quantity"]
        return _z3.ForAll([r], _z3.Implies(_S.typeof(r) == eng.class_id("InputParameterQuantity"),
                                          _z3.And(_z3.Or(*[_z3.Select(ty, r) == i for i in qids]),
                                                  _z3.Not(_S.XR.is_nan(_z3.Select(lo, r))), _z3.Not(_S.XR.is_nan(_z3.Select(hi, r))))),
                          patterns=[_z3.Select(ty, r)])
    reg.global_invs.append(("every InputParameterQuantity holds a quantity class and numeric bounds", qparam_inv))
    reg.trust("InputParameterQuantity class invariant (type is a quantity class, bounds are not NaN): established by the constructor "
              "(assumed contract), preserved because _type/_min_si/_max_si are written by constructors only (frame scan obligation)")

    def qparam_scan(table):
        out = []
        for fld in ("_type", "_min_si", "_max_si"):
            w = table.assignments_to_field(fld)
            out.append(("field %s is written only by constructors" % fld, bool(w) and all(q.endswith(".__init__") for q in w), "writers: %s" % w))
        return out
    reg.ground_obligation("quantity-parameter type and bounds are constructor-only (frame scan)", ["C18"], qparam_scan)

    # quantity parameter: the value must be an instance of the parameter's quantity class and its SI value (whatever unit it
    # was entered in) must lie within the bounds; over the Quantity model of contracts/quantity.py
    QV = "asref(value, 'Quantity').g_si"
    OKQ = "isinstance_of(value, self._type) and num(self._min_si) <= %s and %s <= num(self._max_si)" % (QV, QV)
    reg.contract("InputParameterQuantity.set_value", params={"value": "obj"},
                 # (instances of the class invariant below, provable at every call site from it)
                 requires=["is_quantity_class(self._type)", "not isnan(self._min_si) and not isnan(self._max_si)"],
                 raises=[("ValueError", "self._read_only or not (%s)" % OKQ)], on_raise="unchanged",
                 ensures=["same(self._value, value)", OKQ, "same(self._default_value, old(self._default_value))"],
                 modifies=["self._value"], props=C18)
    reg.contract("InputParameterMap.set_value", params={"value": "obj"},
                 raises=[("NotImplementedError", "True")], modifies=[], props=C18)

    # ---- frame scan: default value and read-only flag are written only by the base constructor
    def scan(table):
        out = []
        for fld, allowed in (("_default_value", ["InputParameter.__init__"]), ("_read_only", ["InputParameter.__init__"])):
            w = table.assignments_to_field(fld)
            out.append(("field %s assigned only in %s" % (fld, allowed), w == allowed, "writers: %s" % w))
        return out
    reg.ground_obligation("parameter default/read-only fields are constructor-only", C18, scan)

    # ---- the map
    SS = z3.SeqSort(z3.IntSort())      # key sequences hold string ids
    reg.define("PRIO(m, k)", "get(m._value, k)._display_priority")
    # representation invariant of a map: every child is filed under its own key
    reg.define("MWF(m)", "forall('k:str', implies(has(m._value, k), get(m._value, k)._key == k))")
    reg.define("SORTED(m)",
               "forall('a:str, b:str', implies(has(m._value, a) and has(m._value, b)"
               " and indexof(keys(m._value), a) < indexof(keys(m._value), b), num(PRIO(m, a)) <= num(PRIO(m, b))))")
    IP = "asref(input_parameter, 'InputParameter')"
    V = "self._value"
    V0 = "old(self._value)"
    K0 = "keys(old(self._value))"
    K1 = "keys(self._value)"
    reg.contract("InputParameterMap.add", params={"input_parameter": "obj"},
                 requires=["MWF(self)", "nodupstr(keys(self._value))",
                           "forall('k:str', implies(has(self._value, k), not isnan(PRIO(self, k))))",
                           "implies(instance(input_parameter, 'InputParameter'), not isnan(%s._display_priority))" % IP],
                 raises=[("TypeError", "not instance(input_parameter, 'InputParameter')"),
                         ("ValueError", "instance(input_parameter, 'InputParameter') and has(self._value, %s._key)" % IP)],
                 ensures=["MWF(self)", "nodupstr(keys(self._value))", "%s._parent == self" % IP,
                          # whole view: exactly the new key is added, every other binding is kept
                          "forall('k:str', iff(has(%s, k), has(%s, k) or k == %s._key))" % (V, V0, IP),
                          "get(%s, %s._key) == %s" % (V, IP, IP),
                          "forall('k:str', implies(has(%s, k), get(%s, k) == get(%s, k)))" % (V0, V, V0)],
                 # ORDER clauses: not discharged by z3/cvc5 within the budget (stable-sort reasoning over sequences); kept as
                 # assumed postconditions for the callers and covered by the BOUNDED native sweep below
                 assumed_ensures=["SORTED(self)",
                          # listed in order of display priority, ties in insertion order: old keys keep their
                          # relative order, the new key comes after exactly the old keys with priority <= its own
                          "forall('a:str, b:str', implies(has(%s, a) and has(%s, b),"
                          " iff(indexof(%s, a) < indexof(%s, b), indexof(%s, a) < indexof(%s, b))))" % (V0, V0, K1, K1, K0, K0),
                          "forall('a:str', implies(has(%s, a), iff(indexof(%s, a) < indexof(%s, %s._key),"
                          " num(get(%s, a)._display_priority) <= num(%s._display_priority))))" % (V0, K1, K1, IP, V0, IP)],
                 labels={"MWF(self)": "MWF"},
                 modifies=["self._value", "%s._parent" % IP], props=["C18"], axiom_sets=("seqstr", "pmap"))
    reg.trust("InputParameterMap.add: the ORDER of the children after an insertion (display priority, ties in insertion order) is an "
              "assumed postcondition (sequence reasoning about the stable re-sort left open by both solvers); bounded native sweep instead")

    def param_sweep(table):
        from pyvc.ground import run_native
        res = run_native({"function": "InputParameterMap.add", "obligation": "bounded-sweep", "property": "C18"})
        return [("BOUNDED: 3000 random parameter histories: children listed by display priority with ties in insertion order, "
                 "duplicate keys refused, set-then-get through the model, 3-level dotted keys",
                 not res.get("reproduced"), res.get("observed") or res.get("note"))]
    reg.ground_obligation("BOUNDED stand-in: native sweep of parameter maps (child order, duplicates, dotted keys)", ["C18"], param_sweep)

    # dependency: the statement  self._value = {k: v for k, v in sorted(self._value.items(), key=lambda item: item[1])}
    # = stable sort of the entries by InputParameter.__lt__ (display priority)
    reg.trust("sorted(items, key=...) is a stable sort by '<' of the keys (InputParameter.__lt__ = display priority); "
              "dict comprehension over it rebuilds the dict in that order")
    # recognised by shape, not by the names of the temporaries:  sorted(self._value.items(), key=lambda <p>: <p>[1])  and
    # {<a>: <b> for <a>, <b> in <that call, or a local bound to it>}
    def is_resort_call(n):
        import ast
        if not (isinstance(n, ast.Call) and isinstance(n.func, ast.Name) and n.func.id == "sorted" and len(n.args) == 1
                and ast.unparse(n.args[0]) == "self._value.items()" and len(n.keywords) == 1 and n.keywords[0].arg == "key"):
            return False
        lam = n.keywords[0].value
        return (isinstance(lam, ast.Lambda) and len(lam.args.args) == 1 and isinstance(lam.body, ast.Subscript)
                and isinstance(lam.body.value, ast.Name) and lam.body.value.id == lam.args.args[0].arg
                and isinstance(lam.body.slice, ast.Constant) and lam.body.slice.value == 1)

    def resorted(eng, st):
        selfv = st.env["self"]
        m = eng.load_field(st, selfv.t, "InputParameterMap", "_value")
        keys, vals = eng.map_keys(m), eng.map_vals(m)
        nk = S.fresh("sorted_keys", SS)
        prio = lambda k: S.XR.val(z3.Select(st.heap["InputParameter._display_priority"], z3.Select(vals, k)))
        a, b = z3.Int("srt_a"), z3.Int("srt_b")
        U = z3.Unit
        idx = lambda s, x: z3.IndexOf(s, U(x), 0)
        nd = reg.ufun("nodup_ref", SS, z3.BoolSort())
        # permutation (same members, same length, duplicate free), ordered, stable
        st.assume(z3.Length(nk) == z3.Length(keys))
        st.assume(z3.ForAll([a], z3.Contains(nk, U(a)) == z3.Contains(keys, U(a)), patterns=[z3.Contains(nk, U(a))]))
        st.assume(nd(nk) == nd(keys))
        st.assume(z3.ForAll([a, b], z3.Implies(z3.And(z3.Contains(nk, U(a)), z3.Contains(nk, U(b))),
                                               z3.And(z3.Implies(prio(a) < prio(b), idx(nk, a) < idx(nk, b)),
                                                      z3.Implies(z3.And(prio(a) == prio(b), idx(keys, a) < idx(keys, b)),
                                                                 idx(nk, a) < idx(nk, b))))))
        return eng.map_mk(m.ty, nk, vals)

    def sorted_call(eng, node, st):
        from pyvc.engine import Unsupported
        if not is_resort_call(node):
            raise Unsupported("sorted(...) other than the stable re-sort of self._value.items() by the item's value")
        # the sorted item list as an opaque value that remembers the re-sorted map it stands for
        return [(st, SV(Ty("sorteditems"), S.fresh("sorted_items", z3.IntSort()), const=("sorted_items", resorted(eng, st))))]
    reg.specfun("callhook_sorted", sorted_call)

    def dictcomp(eng, node, st):
        import ast
        from pyvc.engine import Unsupported
        g = node.generators[0] if len(node.generators) == 1 else None
        ok = (g is not None and not g.ifs and not g.is_async and isinstance(g.target, ast.Tuple) and len(g.target.elts) == 2
              and all(isinstance(e, ast.Name) for e in g.target.elts) and isinstance(node.key, ast.Name)
              and isinstance(node.value, ast.Name) and [node.key.id, node.value.id] == [e.id for e in g.target.elts])
        if ok and is_resort_call(g.iter):
            return [(st, resorted(eng, st))]
        if ok and isinstance(g.iter, ast.Name) and g.iter.id in st.env:
            v = st.env[g.iter.id]
            org = getattr(v, "const", None)
            if v.ty.kind == "sorteditems" and isinstance(org, tuple) and org[0] == "sorted_items":
                return [(st, org[1])]
        raise Unsupported("dict comprehension other than the stable re-sort of self._value")
    reg.specfun("dictcomp_hook", dictcomp)

    # lookup by dotted key: recursive definition over the heap-held maps, as an uninterpreted function
    # of (map field array, map object, key) constrained by the contracts of get/remove themselves
    MAPARR = z3.ArraySort(z3.IntSort(), S.map_sort(MAP(STR, REF("InputParameter"))))
    lookup = reg.ufun("plookup", MAPARR, z3.IntSort(), z3.StringSort(), z3.IntSort())
    lookup_ok = reg.ufun("plookup_ok", MAPARR, z3.IntSort(), z3.StringSort(), z3.BoolSort())

    # plookup(H, m, key): the parameter addressed by a dotted key below map m, H = the heap array of the maps'
    # _value field; defined by recursion on the FIRST period
    Hm, mm, kk = z3.Const("pl_H", MAPARR), z3.Int("pl_m"), z3.String("pl_k")
    MS = S.map_sort(MAP(STR, REF("InputParameter")))
    valsf = MS.accessor(0, 1)
    dot = z3.StringVal(".")
    i0 = z3.IndexOf(kk, dot, 0)
    head = z3.SubString(kk, 0, i0)
    rest = z3.SubString(kk, i0 + 1, z3.Length(kk) - i0 - 1)
    note = "definition of the dotted-key lookup plookup by recursion on the first period"
    reg.scoped_axiom("pmap", z3.ForAll([Hm, mm, kk], z3.Implies(z3.Not(z3.Contains(kk, dot)),
                     lookup(Hm, mm, kk) == z3.Select(valsf(z3.Select(Hm, mm)), S.sid(kk))), patterns=[lookup(Hm, mm, kk)]), note)
    reg.scoped_axiom("pmap", z3.ForAll([Hm, mm, kk], z3.Implies(z3.Contains(kk, dot),
                     lookup(Hm, mm, kk) == lookup(Hm, z3.Select(valsf(z3.Select(Hm, mm)), S.sid(head)), rest)),
                     patterns=[lookup(Hm, mm, kk)]), note)
    for ax in S.string_id_axioms():
        reg.scoped_axiom("pmap", ax, "string ids")

    def sf_plookup(eng, m, key):
        st = eng._spec_state
        arr = eng.heap_arr(st, "InputParameterMap._value", MAP(STR, REF("InputParameter")))
        return SV(REF("InputParameter"), lookup(arr, m.t, key.t))
    reg.specfun("plookup", sf_plookup)
    reg.define("HEAD(key)", "strprefix(key, indexofstr(key, '.'))")
    reg.define("REST(key)", "strsuffix(key, indexofstr(key, '.') + 1)")
    reg.specfun("indexofstr", lambda eng, s, x: SV(INT, z3.IndexOf(s.t, x.t, 0)))
    reg.specfun("strsuffix", lambda eng, s, i: SV(STR, z3.SubString(s.t, eng.coerce(i, INT)[0].t, z3.Length(s.t) - eng.coerce(i, INT)[0].t)))
    SUB = "asref(get(self._value, HEAD(key)), 'InputParameterMap')"
    reg.contract("InputParameterMap.get", params={"key": "str"}, returns="ref:InputParameter",
                 requires=[],
                 may_raise=[("KeyError", "(not contains(key, '.') and not has(self._value, key)) or (contains(key, '.') and"
                                         " (not has(self._value, HEAD(key)) or not instance(get(self._value, HEAD(key)), 'InputParameterMap')"
                                         " or True))")],
                 ensures=["implies(not contains(key, '.'), has(self._value, key) and result == get(self._value, key))",
                          "implies(contains(key, '.'), has(self._value, HEAD(key))"
                          " and instance(get(self._value, HEAD(key)), 'InputParameterMap'))",
                          # the parameter addressed by the dotted key (recursion on the first period)
                          "result == plookup(self, key)"],
                 pure=True, props=C18, axiom_sets=("seqstr", "pmap"))
    reg.contract("InputParameterMap.remove", params={"key": "str"}, returns="ref:InputParameter",
                 requires=[],
                 may_raise=[("KeyError", "(not contains(key, '.') and not has(self._value, key)) or contains(key, '.')")],
                 on_raise="unchanged",
                 ensures=["implies(not contains(key, '.'), has(%s, key) and result == get(%s, key)"
                          " and mapeq(self._value, map_del(%s, key)))" % (V0, V0, V0),
                          # what is removed and returned is the parameter addressed by the dotted key
                          "result == old(plookup(self, key))"],
                 modifies=["heap.InputParameterMap._value"], props=C18, axiom_sets=("seqstr", "pmap"))

    # axiom set 'pmap': string split facts for one separator
    s_, = (z3.String("ax_ps"),)
    reg.trust("str.split('.')[0] of a string that contains '.' is the prefix before the first '.' (assumed)")

    def str_split(eng, s, recv, args):
        if len(args) != 1 or args[0].const != ".":
            from pyvc.engine import Unsupported
            raise Unsupported("str.split with another separator")
        parts = S.fresh("split_parts", SS)
        i = z3.IndexOf(recv.t, z3.StringVal("."), 0)
        s.assume(z3.Length(parts) >= 1)
        s.assume(S.sof(parts[0]) == z3.If(i >= 0, z3.SubString(recv.t, 0, i), recv.t))
        s.assume(S.sid(S.sof(parts[0])) == parts[0])
        return [(s, SV(SEQ(STR), parts, const="fresh"))]
    reg.specfun("strmethod_split", str_split)

    # ---- the model-level round trip
    IPM = "self._input_parameters"
    reg.contract("DSOLModel.add_parameter", params={"input_parameter": "obj"},
                 requires=["MWF(%s)" % IPM, "nodupstr(keys(%s._value))" % IPM,
                           "forall('k:str', implies(has(%s._value, k), not isnan(PRIO(%s, k))))" % (IPM, IPM),
                           "implies(instance(input_parameter, 'InputParameter'), not isnan(%s._display_priority))" % IP],
                 raises=[("TypeError", "not instance(input_parameter, 'InputParameter')"),
                         ("ValueError", "instance(input_parameter, 'InputParameter') and has(%s._value, %s._key)" % (IPM, IP))],
                 ensures=["MWF(%s)" % IPM, "has(%s._value, %s._key) and get(%s._value, %s._key) == %s" % (IPM, IP, IPM, IP, IP)],
                 modifies=["%s._value" % IPM, "%s._parent" % IP], props=C18, axiom_sets=("seqstr", "pmap"))
    P = "get(%s._value, key)" % IPM
    # set through the model, then get through the model, returns the value that was set (top-level keys;
    # dotted keys go through the recursive get)
    reg.contract("DSOLModel.set_parameter", params={"key": "str", "value": "obj"},
                 requires=["MWF(%s)" % IPM, "not contains(key, '.')", "has(%s._value, key)" % IPM, "PVANY(%s)" % P,
                           "not isref(value)"],
                 may_raise=[("ValueError", "True"), ("TypeError", "True"), ("NotImplementedError", "instance(%s, 'InputParameterMap')" % P)],
                 on_raise="unchanged",
                 ensures=["same(%s._value, value)" % P, "PVANY(%s)" % P],
                 modifies=["%s._value" % P], props=C18, axiom_sets=("seqstr", "pmap"))
    reg.contract("DSOLModel.get_parameter", params={"key": "str"}, returns="obj",
                 requires=["MWF(%s)" % IPM, "not contains(key, '.')", "has(%s._value, key)" % IPM,
                           "not instance(%s, 'InputParameterMap')" % P],
                 ensures=["same(result, %s._value)" % P], pure=True, props=C18, axiom_sets=("seqstr", "pmap"))
    # PVANY(p): the validity rule of p's dynamic class holds for its current value
    reg.define("PVANY(p)",
               "implies(typeis(p, 'InputParameterInt'), VALID_Int(asref(p, 'InputParameterInt'), p._value))"
               " and implies(typeis(p, 'InputParameterFloat'), VALID_Float(asref(p, 'InputParameterFloat'), p._value))"
               " and implies(typeis(p, 'InputParameterStr'), VALID_Str(p, p._value))"
               " and implies(typeis(p, 'InputParameterBool'), VALID_Bool(p, p._value))"
               " and implies(typeis(p, 'InputParameterSelectionList') or typeis(p, 'InputParameterUnit'),"
               "     VALID_Sel(asref(p, 'InputParameterSelectionList'), p._value))")
    reg.lemma("model_set_then_get", """
def set_then_get(m, key, value):
    assume(MWF(m._input_parameters) and not contains(key, '.') and has(m._input_parameters._value, key))
    assume(PVANY(get(m._input_parameters._value, key)))
    assume(not instance(get(m._input_parameters._value, key), 'InputParameterMap') and not isref(value))
    m.set_parameter(key, value)
    r = m.get_parameter(key)
    assert same(r, value), "get after set returns the value that was set"
""", params={"m": "ref:DSOLModel", "key": "str", "value": "obj"}, props=C18, axiom_sets=("seqstr", "pmap"))


_load_p0 = load


def load(reg):      # noqa: F811
    """Constructor of the quantity parameter (over the assumed base-constructor contract): establishes the class invariant."""
    _load_p0(reg)
    base = reg.contracts["InputParameterInt.__init__"]
    PM = "asref(parent, 'InputParameterMap')"
    PARENT_UNCHANGED = "implies(instance(parent, 'InputParameterMap'), mapeq(%s._value, old(%s._value)))" % (PM, PM)
    QV = "asref(self._value, 'Quantity').g_si"
    params = dict(base.params)
    for k in ("min_value", "max_value"):
        params.pop(k, None)
    params.update({"min_si": "obj", "max_si": "obj", "format_str": "obj"})
    base_post = [e for e in base.ensures if "VALID_Int" not in e and "_min" not in e and "_max" not in e]
    reg.contract("InputParameterQuantity.__init__", params=params,
                 # (a default value that is a Quantity is an instance of one of the 41 concrete classes, with a finite SI value)
                 requires=list(base.requires) + ["implies(instance(default_value, 'Quantity'), is_quantity_class(class_of(asref(default_value, 'Quantity'))))"],
                 may_raise=[("TypeError", "True"), ("ValueError", "True")], on_raise="any",
                 ensures=base_post + [
                     # establishes the class invariant that set_value relies on
                     "is_quantity_class(self._type)", "not isnan(self._min_si) and not isnan(self._max_si)",
                     "isinstance_of(self._value, self._type)",
                     "num(self._min_si) <= %s and %s <= num(self._max_si)" % (QV, QV)],
                 exc_ensures=[PARENT_UNCHANGED], modifies=list(base.modifies), props=["C18"], axiom_sets=("seqstr", "pmap"))
    pc = reg.contracts["InputParameter.__init__"]
    pc.for_classes = list(dict.fromkeys((pc.for_classes or []) + ["InputParameterQuantity"]))
