"""Sidecar contracts: WeightedTally and TimestampWeightedTally (property C10).

Ghost state of a WeightedTally: g_obs (array, valid on 0.._n-1) all accepted values (zero
weight ones included, for min/max); g_nz = number of accepted observations with weight > 0;
g_W = sum of weights, g_A = sum of w*x, g_B = sum of w*x*x over them.  The ghost sums are
maintained by the contract of register -- that is their (inductive) definition.
For the timestamped variant the weighted observation contributed at a new timestamp t is
(t - last_timestamp, last_value): g_A is then by construction the integral of the
piecewise-constant signal from the first timestamp to the last one (the finite sum of
rectangle areas *is* the definition used), g_W telescopes to last - first (proved).
"""


def load(reg):
    C10 = ["C10"]
    reg.declare_fields("WeightedTally", _name="str", _n="int", _n_nonzero="int",
                       _sum_of_weights="real", _weighted_mean="real", _weight_times_variance="real",
                       _weighted_sum="real", _min="xreal", _max="xreal",
                       g_obs="arr[real]", g_nz="int", g_W="real", g_A="real", g_B="real",
                       ghost=("g_obs", "g_nz", "g_W", "g_A", "g_B"))
    reg.define("WI_minmax(t)",
               "isfin(t._min) and isfin(t._max)"
               " and forall('i:int', implies(0 <= i and i < t._n,"
               "            val(t._min) <= t.g_obs[i] and t.g_obs[i] <= val(t._max)))"
               " and exists('i:int', 0 <= i and i < t._n and t.g_obs[i] == val(t._min))"
               " and exists('i:int', 0 <= i and i < t._n and t.g_obs[i] == val(t._max))")
    reg.define("WI(t)",
               "t._n >= 0 and t._n_nonzero == t.g_nz and 0 <= t.g_nz and t.g_nz <= t._n"
               " and t._sum_of_weights == t.g_W and t._weighted_sum == t.g_A and t.g_W >= 0"
               " and implies(t.g_nz == 0, t.g_W == 0 and t.g_A == 0 and t.g_B == 0"
               "             and t._weighted_mean == 0 and t._weight_times_variance == 0)"
               " and implies(t.g_nz > 0, t.g_W > 0 and t._weighted_mean == t.g_A / t.g_W"
               "             and t._weight_times_variance == t.g_B - t.g_A * t.g_A / t.g_W"
               "             and t._weight_times_variance >= 0)"
               " and implies(t._n == 0, isnan(t._min) and isnan(t._max))"
               " and implies(t._n > 0, WI_minmax(t))")
    wmod = ["self._n", "self._n_nonzero", "self._sum_of_weights", "self._weighted_mean",
            "self._weight_times_variance", "self._weighted_sum", "self._min", "self._max"]
    greset = [("self.g_nz", "0"), ("self.g_W", "0.0"), ("self.g_A", "0.0"), ("self.g_B", "0.0")]
    WT = ["WeightedTally"]
    reg.contract("WeightedTally.__init__", params={"name": "obj"},
                 raises=[("TypeError", "not isstr(name)")],
                 ensures=["WI(self)", "self._n == 0", "self.g_nz == 0"],
                 # a constructor may set every field of the new object (the virtual
                 # self.initialize() of a subclass sets the subclass fields too)
                 modifies=["self.*"], ghost_exit=greset, on_raise="any", props=C10)
    reg.contract("WeightedTally.initialize", params={},
                 ensures=["WI(self)", "self._n == 0", "self.g_nz == 0"],
                 modifies=wmod, ghost_exit=greset, props=C10)
    # finite numbers are the property's domain: +-inf excluded by precondition
    WV = "val(num(weight))"
    XV = "val(num(value))"
    reg.contract("WeightedTally.register", params={"weight": "obj", "value": "obj"},
                 requires=["WI(self)", "not isref(weight) and not isref(value)",
                           "not isnum(weight) or isnan(num(weight)) or isfin(weight)",
                           "not isnum(value) or isnan(num(value)) or isfin(value)"],
                 raises=[("TypeError", "not isnum(weight) or not isnum(value)"),
                         ("ValueError", "isnum(weight) and isnum(value) and (isnan(num(value)) or isnan(num(weight))"
                                        " or val(num(weight)) < 0)")],
                 ensures=["WI(self)", "self._n == old(self._n) + 1",
                          # zero weight: only the count, minimum and maximum may change
                          "implies(%s == 0, self._n_nonzero == old(self._n_nonzero)"
                          " and self._sum_of_weights == old(self._sum_of_weights)"
                          " and self._weighted_mean == old(self._weighted_mean)"
                          " and self._weight_times_variance == old(self._weight_times_variance)"
                          " and self._weighted_sum == old(self._weighted_sum))" % WV],
                 labels={"WI(self)": "WI"},
                 modifies=wmod,
                 ghost_exit=[("self.g_obs", "store(old(self.g_obs), old(self._n), %s)" % XV),
                             ("self.g_nz", "old(self.g_nz) + ite(%s > 0, 1, 0)" % WV),
                             ("self.g_W", "old(self.g_W) + %s" % WV),
                             ("self.g_A", "old(self.g_A) + %s * %s" % (WV, XV)),
                             ("self.g_B", "old(self.g_B) + %s * %s * %s" % (WV, XV, XV))],
                 props=C10)
    reg.contract("WeightedTally.n", params={}, returns="int", requires=["WI(self)"],
                 ensures=["result == self._n"], pure=True, props=C10)
    for mm in ("min", "max"):
        reg.contract("WeightedTally.%s" % mm, params={}, returns="xreal", requires=["WI(self)"],
                     ensures=["implies(self._n == 0, isnan(result))",
                              "implies(self._n > 0, isfin(result) and same(result, self._%s))" % mm],
                     pure=True, props=C10)
    reg.contract("WeightedTally.weighted_sum", params={}, returns="real", requires=["WI(self)"],
                 ensures=["result == self.g_A"], pure=True, props=C10)
    reg.contract("WeightedTally.weighted_mean", params={}, returns="xreal", requires=["WI(self)"],
                 ensures=["implies(self._n == 0, isnan(result))",
                          "implies(self.g_nz > 0, isfin(result) and val(result) == self.g_A / self.g_W)",
                          "isfin(result) or isnan(result)"],
                 pure=True, props=C10)
    reg.define("WVAR(t)", "(t.g_B - t.g_A * t.g_A / t.g_W) / t.g_W")
    reg.contract("WeightedTally.weighted_variance", params={"biased": "bool"}, returns="xreal",
                 requires=["WI(self)"],
                 ensures=["implies(self._n == 0, isnan(result))",
                          "implies(biased and self.g_nz > 0, isfin(result) and val(result) == WVAR(self))",
                          "implies(not biased and self.g_nz > 1, isfin(result) and"
                          " val(result) == WVAR(self) * self.g_nz / (self.g_nz - 1))",
                          "implies(not biased and self.g_nz == 1, isnan(result))",
                          "isnan(result) or (isfin(result) and val(result) >= 0)"],
                 pure=True, props=C10)
    reg.contract("WeightedTally.weighted_stdev", params={"biased": "bool"}, returns="xreal",
                 requires=["WI(self)"],
                 ensures=["implies(self._n == 0, isnan(result))",
                          "implies(biased and self.g_nz > 0, isfin(result) and val(result) >= 0"
                          " and val(result) * val(result) == WVAR(self))",
                          "isnan(result) or (isfin(result) and val(result) >= 0)"],
                 pure=True, props=C10)

    # ------------------------------------------------------------------ TimestampWeightedTally
    reg.declare_fields("TimestampWeightedTally", _start_time="xreal", _last_timestamp="xreal",
                       _last_value="real", _active="bool")
    # started = a first timestamp has been accepted since the last initialize()
    reg.define("TWI(t)",
               "WI(t) and iff(isnan(t._start_time), isnan(t._last_timestamp))"
               " and implies(isnan(t._start_time), t._n == 0 and t.g_nz == 0)"
               " and implies(not isnan(t._start_time), isfin(t._start_time) and isfin(t._last_timestamp)"
               "             and val(t._start_time) <= val(t._last_timestamp)"
               "             and t.g_W == val(t._last_timestamp) - val(t._start_time))")
    tmod = wmod + ["self._start_time", "self._last_timestamp", "self._last_value", "self._active"]
    TT = ["TimestampWeightedTally"]
    reg.contract("TimestampWeightedTally.__init__", params={"name": "obj"},
                 raises=[("TypeError", "not isstr(name)")],
                 ensures=["TWI(self)", "self._n == 0", "self._active", "isnan(self._start_time)"],
                 modifies=["self.*"], ghost_exit=greset, on_raise="any", props=C10)
    reg.contract("TimestampWeightedTally.initialize", params={},
                 ensures=["TWI(self)", "self._n == 0", "self._active", "isnan(self._start_time)",
                          "self._last_value == 0"],
                 modifies=tmod, ghost_exit=greset, props=C10)
    reg.contract("TimestampWeightedTally.isactive", params={}, returns="bool", requires=["TWI(self)"],
                 ensures=["result == self._active"], pure=True, props=C10)
    reg.contract("TimestampWeightedTally.last_value", params={}, returns="real", requires=["TWI(self)"],
                 ensures=["result == self._last_value"], pure=True, props=C10)
    TS = "val(num(timestamp))"
    # a new weighted observation is counted iff active, already started and strictly later
    COUNTED = "(self._active and not isnan(self._last_timestamp) and %s > val(self._last_timestamp))" % TS
    OCOUNTED = "(old(self._active) and not isnan(old(self._last_timestamp)) and %s > val(old(self._last_timestamp)))" % TS
    OFIRST = "(old(self._active) and isnan(old(self._last_timestamp)))"
    reg.contract("TimestampWeightedTally.register", params={"timestamp": "obj", "value": "obj"},
                 requires=["TWI(self)", "not isref(timestamp) and not isref(value)",
                           "not isnum(timestamp) or isnan(num(timestamp)) or isfin(timestamp)",
                           "not isnum(value) or isnan(num(value)) or isfin(value)"],
                 raises=[("TypeError", "not isnum(timestamp) or not isnum(value)"),
                         ("ValueError", "isnum(timestamp) and isnum(value) and (isnan(num(value)) or isnan(num(timestamp))"
                                        " or (not isnan(self._last_timestamp) and %s < val(self._last_timestamp)))" % TS)],
                 ensures=["TWI(self)", "self._last_value == %s" % XV, "self._active == old(self._active)",
                          # first accepted timestamp while active: becomes start and last
                          "implies(%s, val(self._start_time) == %s and val(self._last_timestamp) == %s"
                          " and self._n == 0 and self.g_A == old(self.g_A))" % (OFIRST, TS, TS),
                          # a strictly later timestamp while active: previous value weighted by elapsed time
                          "implies(%s, self.g_A == old(self.g_A) + old(self._last_value) * (%s - val(old(self._last_timestamp)))"
                          " and self.g_W == old(self.g_W) + (%s - val(old(self._last_timestamp)))"
                          " and val(self._last_timestamp) == %s and same(self._start_time, old(self._start_time))"
                          " and self._n == old(self._n) + 1)" % (OCOUNTED, TS, TS, TS),
                          # otherwise (inactive, or repeated timestamp): only the last value changes
                          "implies(not %s and not %s, self._n == old(self._n) and self.g_A == old(self.g_A)"
                          " and self.g_W == old(self.g_W) and same(self._last_timestamp, old(self._last_timestamp))"
                          " and same(self._start_time, old(self._start_time))"
                          " and same(self._min, old(self._min)) and same(self._max, old(self._max))"
                          " and self._weighted_mean == old(self._weighted_mean)"
                          " and self._weight_times_variance == old(self._weight_times_variance))" % (OFIRST, OCOUNTED)],
                 labels={"TWI(self)": "TWI"},
                 modifies=tmod + ["self.g_obs", "self.g_nz", "self.g_W", "self.g_A", "self.g_B"],
                 props=C10)
    reg.contract("TimestampWeightedTally.end_observations", params={"timestamp": "obj"},
                 requires=["TWI(self)", "not isref(timestamp)", "not isnum(timestamp) or isnan(num(timestamp)) or isfin(timestamp)"],
                 raises=[("TypeError", "not isnum(timestamp)"),
                         ("ValueError", "isnum(timestamp) and (isnan(num(timestamp))"
                                        " or (not isnan(self._last_timestamp) and %s < val(self._last_timestamp)))" % TS)],
                 ensures=["TWI(self)", "not self._active",
                          # closing an active, started tally at T >= last: total weight is the span
                          "implies(old(self._active) and not isnan(old(self._start_time)),"
                          " self.g_W == %s - val(old(self._start_time))"
                          " and self.g_A == old(self.g_A) + old(self._last_value) * (%s - val(old(self._last_timestamp))))" % (TS, TS)],
                 modifies=tmod + ["self.g_obs", "self.g_nz", "self.g_W", "self.g_A", "self.g_B"],
                 props=C10)
    # the inherited getters are verified once more for the timestamped receiver class
    for q in ("WeightedTally.weighted_mean", "WeightedTally.weighted_variance", "WeightedTally.weighted_stdev",
              "WeightedTally.weighted_sum", "WeightedTally.n", "WeightedTally.min", "WeightedTally.max",
              "WeightedTally.register", "WeightedTally.initialize", "WeightedTally.__init__"):
        reg.contracts[q].for_classes = ["WeightedTally", "TimestampWeightedTally"]
