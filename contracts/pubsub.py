"""Sidecar contracts: EventProducer, Event, TimedEvent (property C08).

View of a producer: subs = self._listeners, an insertion-ordered map
EventType -> sequence of listeners (the field value itself; lists held in the dict are
owned by the producer).  PWF: every stored sequence is non-empty and duplicate free.
Listeners and event types are compared by identity (no __eq__ override in /repo; user
listener classes overriding __eq__ are outside the closed world).
"""


def load(reg):
    C08 = ["C08"]
    AX = ("seqref",)
    reg.declare_fields("EventProducer", _listeners="map[ref:EventType,seq[ref:EventListener]]")
    reg.declare_fields("EventType", _name="str", _defining_class="str", _metadata="obj")
    reg.declare_fields("Event", _event_type="ref:EventType", _content="obj")
    reg.declare_fields("TimedEvent", _timestamp="obj")
    reg.define("PWF(p)",
               "nodup(keys(p._listeners)) and forall('k:ref:EventType', implies(has(p._listeners, k),"
               " len(get(p._listeners, k)) > 0 and nodup(get(p._listeners, k))))")
    ET = "asref(event_type, 'EventType')"
    LS = "asref(listener, 'EventListener')"
    BADARGS = "not instance(event_type, 'EventType') or not instance(listener, 'EventListener')"
    L0 = "old(self._listeners)"

    reg.contract("EventProducer.__init__", params={},
                 ensures=["map_empty(self._listeners)", "PWF(self)"],
                 modifies=["self._listeners"], props=C08, axiom_sets=AX)
    reg.contract("EventProducer.add_listener", params={"event_type": "obj", "listener": "obj"},
                 requires=["PWF(self)"],
                 raises=[("EventError", BADARGS)],
                 ensures=["PWF(self)",
                          # whole view: new subscription appended at the end of the type's list
                          # (a new type goes to the end of the key order); duplicates ignored;
                          # every other key untouched (equality of the whole map)
                          "mapeq(self._listeners, ite(has(%s, %s),"
                          "   ite(contains(get(%s, %s), %s), %s, map_put(%s, %s, get(%s, %s) + [%s])),"
                          "   map_put(%s, %s, [%s])))" % (L0, ET, L0, ET, LS, L0, L0, ET, L0, ET, LS, L0, ET, LS),
                          # (consequences of the whole-map clause, stated for clients: the listener is now subscribed to the
                          # type, subscriptions of every other type are untouched)
                          "has(self._listeners, %s) and contains(get(self._listeners, %s), %s)" % (ET, ET, LS),
                          "forall('k:ref:EventType', implies(k != %s, has(self._listeners, k) == has(%s, k)"
                          " and implies(has(%s, k), get(self._listeners, k) == get(%s, k))))" % (ET, L0, L0, L0)],
                 labels={"PWF(self)": "PWF"},
                 modifies=["self._listeners"], props=C08, axiom_sets=AX)
    RM_RESULT = ("ite(has(%s, %s) and contains(get(%s, %s), %s),"
                 "   ite(len(get(%s, %s)) == 1, map_del(%s, %s), map_put(%s, %s, rm(get(%s, %s), %s))),"
                 "   %s)" % (L0, ET, L0, ET, LS, L0, ET, L0, ET, L0, ET, L0, ET, LS, L0))
    reg.contract("EventProducer.remove_listener", params={"event_type": "obj", "listener": "obj"},
                 requires=["PWF(self)"],
                 raises=[("EventError", BADARGS)],
                 ensures=["PWF(self)",
                          # unsubscribing an absent listener is harmless (map unchanged); otherwise
                          # exactly that listener leaves that list (order of the rest kept), the key
                          # disappears when the list becomes empty; all other keys untouched
                          "mapeq(self._listeners, " + RM_RESULT + ")"],
                 labels={"PWF(self)": "PWF"},
                 modifies=["self._listeners"], props=C08, axiom_sets=AX)
    reg.contract("EventProducer.has_listeners", params={}, returns="bool",
                 ensures=["result == (len(keys(self._listeners)) > 0)"], pure=True, props=C08, axiom_sets=AX)
    # remove_all_listeners: four argument forms
    ETN = "isnone(event_type)"
    LSN = "isnone(listener)"
    reg.contract("EventProducer.remove_all_listeners", params={"event_type": "obj", "listener": "obj"},
                 requires=["PWF(self)"],
                 raises=[("EventError", "not (isnone(event_type) or instance(event_type, 'EventType'))"
                                        " or not (isnone(listener) or instance(listener, 'EventListener'))")],
                 ensures=["PWF(self)",
                          "implies(%s and %s, map_empty(self._listeners))" % (ETN, LSN),
                          # (None, l): l is gone from every type; every other subscription kept in order
                          "implies(%s and not %s, forall('k:ref:EventType',"
                          "   iff(has(self._listeners, k), has(%s, k) and get(%s, k) != [%s])"
                          "   and implies(has(self._listeners, k), get(self._listeners, k) == rm(get(%s, k), %s))))"
                          % (ETN, LSN, L0, L0, LS, L0, LS),
                          # (t, None): exactly type t is dropped
                          "implies(not %s and %s, mapeq(self._listeners, map_del(%s, %s)))" % (ETN, LSN, L0, ET),
                          # (t, l): same as remove_listener
                          "implies(not %s and not %s, mapeq(self._listeners, %s))" % (ETN, LSN, RM_RESULT)],
                 labels={"PWF(self)": "PWF"},
                 modifies=["self._listeners"], props=C08, axiom_sets=AX)
    reg.loop_invariant("EventProducer.remove_all_listeners", loop=0,
                       inv=["PWF(self)", "0 <= _i and _i <= len(_seq)", "_seq == keys(%s)" % L0,
                            # processed keys: listener removed; unprocessed keys: untouched
                            "forall('k:ref:EventType', implies(has(%s, k) and indexof(_seq, k) < _i,"
                            "   iff(has(self._listeners, k), get(%s, k) != [%s])"
                            "   and implies(has(self._listeners, k), get(self._listeners, k) == rm(get(%s, k), %s))))" % (L0, L0, LS, L0, LS),
                            "forall('k:ref:EventType', implies(not (has(%s, k) and indexof(_seq, k) < _i),"
                            "   iff(has(self._listeners, k), has(%s, k))"
                            "   and implies(has(self._listeners, k), get(self._listeners, k) == get(%s, k))))" % (L0, L0, L0)],
                       modifies=["self._listeners"])

    # ---- callback contract of a listener: any code using public APIs; may raise anything
    reg.contract("EventListener.notify", params={"event": "ref:Event"}, abstract=True,
                 modifies=["heap.*"], may_raise=[("CallbackError", "True")], on_raise="any",
                 note="callback contract: the listener may call any public API (nested fire, "
                      "(un)subscription on this producer included) and may raise", props=C08)
    SNAP = "get(%s, event._event_type)" % L0
    reg.contract("EventProducer.fire_event", params={"event": "obj"},
                 requires=["PWF(self)"],
                 raises=[("EventError", "not instance(event, 'Event')")],
                 may_raise=[("CallbackError", "instance(event, 'Event') and has(self._listeners, asref(event, 'Event')._event_type)")],
                 on_raise="any",
                 modifies=["heap.*"], props=C08, axiom_sets=AX)
    for fe, ev in (("EventProducer.fire_event", "event"), ("EventProducer.fire_timed_event", "timed_event")):
        EVR = "asref(%s, '%s')" % (ev, "Event" if ev == "event" else "TimedEvent")
        SNAP = "old(get(self._listeners, %s._event_type))" % EVR
        reg.loop_invariant(fe, loop=0,
                           ghost_init=[("g_done", "empty_like(%s)" % SNAP)],
                           ghost_pre=[("g_done", "g_done + [listener]")],
                           inv=["0 <= _i and _i <= len(%s)" % SNAP,
                                # the receivers notified so far by this firing are exactly the first _i
                                # subscribers of the snapshot taken at the moment of firing, in order
                                "g_done == subseq(%s, 0, _i)" % SNAP,
                                "_seq == %s" % SNAP],
                           post=["g_done == %s" % SNAP],
                           modifies=["heap.*"])
    reg.contract("EventProducer.fire_timed_event", params={"timed_event": "obj"},
                 requires=["PWF(self)"],
                 raises=[("EventError", "not instance(timed_event, 'TimedEvent')")],
                 may_raise=[("CallbackError", "instance(timed_event, 'TimedEvent') and has(self._listeners, asref(timed_event, 'TimedEvent')._event_type)")],
                 on_raise="any",
                 modifies=["heap.*"], props=C08, axiom_sets=AX)


def load_events(reg):
    """Event / TimedEvent constructors (payload metadata validation) and fire / fire_timed."""
    C08 = ["C08"]
    AX = ("seqref",)
    # EventType objects: metadata is None or a dict (EventType.__init__ iterates metadata.keys(),
    # so anything else never yields an EventType)
    MD = "asref(event_type, 'EventType')._metadata"
    reg.define("ETWF(et)", "isnone(et._metadata) or isdict(et._metadata)")
    # a key of the metadata is satisfied by the content
    reg.define("KEYOK(md, content, key)",
               "dhas(content, key) and not isnone(dget(content, key)) and isinst(dget(content, key), dget(md, key))")
    BAD = ("not instance(event_type, 'EventType') or (not isnone(%s) and (not isdict(content)"
           " or (check and (dlen(%s) != dlen(content)"
           "     or exists('j:int', 0 <= j and j < len(dkeys(%s)) and not KEYOK(%s, content, dkeys(%s)[j]))))))"
           % (MD, MD, MD, MD, MD))
    reg.contract("Event.__init__", params={"event_type": "obj", "content": "obj", "check": "bool"},
                 requires=["implies(instance(event_type, 'EventType'), ETWF(asref(event_type, 'EventType')))"],
                 raises=[("EventError", BAD)],
                 ensures=["self._event_type == asref(event_type, 'EventType')", "same(self._content, content)",
                          # a created event whose type declares metadata carries a dict payload with (when
                          # checked) as many keys as declared, every declared key present with a value of
                          # the declared type -- i.e. exactly the declared keys (finite-set pigeonhole)
                          "isnone(%s) or (isdict(content) and (not check or (dlen(%s) == dlen(content)"
                          " and forall('j:int', implies(0 <= j and j < len(dkeys(%s)), KEYOK(%s, content, dkeys(%s)[j]))))))"
                          % (MD, MD, MD, MD, MD)],
                 modifies=["self._event_type", "self._content"], on_raise="any",
                 for_classes=["Event", "TimedEvent"], props=C08)
    reg.loop_invariant("Event.__init__", loop=0,
                       inv=["0 <= _i and _i <= len(_seq)", "_seq == dkeys(%s)" % MD,
                            "forall('j:int', implies(0 <= j and j < _i, KEYOK(%s, content, dkeys(%s)[j])))" % (MD, MD)],
                       modifies=[])
    reg.contract("TimedEvent.__init__",
                 params={"timestamp": "obj", "event_type": "obj", "content": "obj", "check": "bool"},
                 requires=["implies(instance(event_type, 'EventType'), ETWF(asref(event_type, 'EventType')))"],
                 raises=[("EventError", "not (isnum(timestamp) or instance(timestamp, 'Quantity')) or (%s)" % BAD)],
                 ensures=["same(self._timestamp, timestamp)", "self._event_type == asref(event_type, 'EventType')",
                          "same(self._content, content)"],
                 modifies=["self._timestamp", "self._event_type", "self._content"], on_raise="any", props=C08)
    for q in ("Event.event_type", "Event.content", "TimedEvent.timestamp", "EventType.metadata", "EventType.name"):
        pass      # one-line getters: inlined by the engine
    reg.contract("EventProducer.fire", params={"event_type": "obj", "content": "obj", "check": "bool"},
                 requires=["PWF(self)", "implies(instance(event_type, 'EventType'), ETWF(asref(event_type, 'EventType')))"],
                 raises=[("EventError", BAD)],
                 may_raise=[("CallbackError", "instance(event_type, 'EventType') and has(self._listeners, asref(event_type, 'EventType'))")],
                 on_raise="any", modifies=["heap.*"], props=C08, axiom_sets=AX)
    reg.contract("EventProducer.fire_timed",
                 params={"time": "obj", "event_type": "obj", "content": "obj", "check": "bool"},
                 requires=["PWF(self)", "implies(instance(event_type, 'EventType'), ETWF(asref(event_type, 'EventType')))"],
                 raises=[("EventError", "not (isnum(time) or instance(time, 'Quantity')) or (%s)" % BAD)],
                 may_raise=[("CallbackError", "instance(event_type, 'EventType') and has(self._listeners, asref(event_type, 'EventType'))")],
                 on_raise="any", modifies=["heap.*"], props=C08, axiom_sets=AX)


_load_producer = load


def load(reg):      # noqa: F811
    _load_producer(reg)
    load_events(reg)
    # firing to nobody changes nothing (nohavoc.* obligations on the four functions; used by the statistics contracts)
    reg.contracts["EventProducer.fire_event"].havoc_only_if = \
        "instance(event, 'Event') and has(self._listeners, asref(event, 'Event')._event_type)"
    reg.contracts["EventProducer.fire_timed_event"].havoc_only_if = \
        "instance(timed_event, 'TimedEvent') and has(self._listeners, asref(timed_event, 'TimedEvent')._event_type)"
    for q in ("EventProducer.fire", "EventProducer.fire_timed"):
        reg.contracts[q].havoc_only_if = "instance(event_type, 'EventType') and has(self._listeners, asref(event_type, 'EventType'))"
