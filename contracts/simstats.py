"""Sidecar contracts: event-based and simulation statistics (C11; the event-publishing variants of C09).

Callback assumption CB-stat (assumed, listed in the evidence): listeners subscribed to a statistic's *own*
events (GUI elements, ...) do not call that statistic's mutators from inside notify -- a firing statistic
finds all its fields except the listener table unchanged after the notification.
"Every published value equals what the query methods return at that moment" is decided syntactically: a
ground obligation checks, for all seven _fire_events functions, that the payload expression of every
fire(...) is literally the documented query call for that event type.
"""
import ast

import z3

from pyvc import sorts as S
from pyvc.sorts import SV, REF


# event type -> the query expression that must be published (documentation of StatEvents)
PUB_TABLE = {
    "OBSERVATION_ADDED_EVENT": None,      # the observation itself (parameter)
    "N_EVENT": "self.n()", "COUNT_EVENT": "self.count()", "MIN_EVENT": "self.min()", "MAX_EVENT": "self.max()",
    "SUM_EVENT": "self.sum()", "MEAN_EVENT": "self.mean()",
    "POPULATION_STDEV_EVENT": "self.stdev()", "POPULATION_VARIANCE_EVENT": "self.variance()",
    "POPULATION_SKEWNESS_EVENT": "self.skewness()", "POPULATION_KURTOSIS_EVENT": "self.kurtosis()",
    "POPULATION_EXCESS_K_EVENT": "self.excess_kurtosis()",
    "SAMPLE_STDEV_EVENT": "self.stdev(False)", "SAMPLE_VARIANCE_EVENT": "self.variance(False)",
    "SAMPLE_SKEWNESS_EVENT": "self.skewness(False)", "SAMPLE_KURTOSIS_EVENT": "self.kurtosis(False)",
    "SAMPLE_EXCESS_K_EVENT": "self.excess_kurtosis(False)",
    "WEIGHTED_SUM_EVENT": "self.weighted_sum()", "WEIGHTED_MEAN_EVENT": "self.weighted_mean()",
    "WEIGHTED_POPULATION_STDEV_EVENT": "self.weighted_stdev()", "WEIGHTED_POPULATION_VARIANCE_EVENT": "self.weighted_variance()",
    "WEIGHTED_SAMPLE_STDEV_EVENT": "self.weighted_stdev(False)", "WEIGHTED_SAMPLE_VARIANCE_EVENT": "self.weighted_variance(False)",
}
FIRE_CLASSES = ["EventBasedCounter", "EventBasedTally", "EventBasedWeightedTally", "EventBasedTimestampWeightedTally",
                "SimCounter", "SimTally", "SimWeightedTally"]      # SimPersistent inherits EventBasedTimestampWeightedTally's
EXPECTED_TYPES = {
    "Counter": ["OBSERVATION_ADDED_EVENT", "N_EVENT", "COUNT_EVENT"],
    "Tally": ["OBSERVATION_ADDED_EVENT", "N_EVENT", "MIN_EVENT", "MAX_EVENT", "SUM_EVENT", "MEAN_EVENT", "POPULATION_STDEV_EVENT",
              "POPULATION_VARIANCE_EVENT", "POPULATION_SKEWNESS_EVENT", "POPULATION_KURTOSIS_EVENT", "POPULATION_EXCESS_K_EVENT",
              "SAMPLE_STDEV_EVENT", "SAMPLE_VARIANCE_EVENT", "SAMPLE_SKEWNESS_EVENT", "SAMPLE_KURTOSIS_EVENT", "SAMPLE_EXCESS_K_EVENT"],
    "Weighted": ["OBSERVATION_ADDED_EVENT", "N_EVENT", "MIN_EVENT", "MAX_EVENT", "WEIGHTED_SUM_EVENT", "WEIGHTED_MEAN_EVENT",
                 "WEIGHTED_POPULATION_STDEV_EVENT", "WEIGHTED_POPULATION_VARIANCE_EVENT", "WEIGHTED_SAMPLE_STDEV_EVENT",
                 "WEIGHTED_SAMPLE_VARIANCE_EVENT"],
}


def load(reg):
    C11, C09 = ["C11"], ["C09"]
    AX = ("seqref",)

    # ------------------------------------------------------------------ published values (syntactic, exhaustive)
    def publication_table(table):
        out = []
        for cls in FIRE_CLASSES:
            f = table.resolve(cls, "_fire_events")
            if f is None or f.cls != cls:
                out.append(("%s._fire_events exists" % cls, f is not None and f.cls == cls, ""))
                continue
            fam = "Counter" if "Counter" in cls else "Tally" if cls in ("EventBasedTally", "SimTally") else "Weighted"
            seen = []
            ok_all = True
            for stmt in f.body:
                if isinstance(stmt, ast.Assign):
                    continue        # t = self.simulator.simulator_time
                call = stmt.value if isinstance(stmt, ast.Expr) else None
                good = isinstance(call, ast.Call) and isinstance(call.func, ast.Attribute) and call.func.attr in ("fire", "fire_timed")
                if not good:
                    out.append(("%s._fire_events: statement %r is a fire call" % (cls, ast.unparse(stmt)[:50]), False, ""))
                    ok_all = False
                    continue
                args = call.args[1:] if call.func.attr == "fire_timed" else call.args
                et = ast.unparse(args[0]).replace("StatEvents.", "")
                payload = ast.unparse(args[1])
                exp = PUB_TABLE.get(et, "?")
                seen.append(et)
                if exp is None:
                    ok = payload in ("value",)
                else:
                    ok = payload == exp
                out.append(("%s._fire_events publishes %s as %s" % (cls, et, exp or "the observation"), ok, "payload expression: %s" % payload))
            out.append(("%s._fire_events publishes exactly the documented event types in order" % cls,
                        seen == EXPECTED_TYPES[fam], "published: %s" % seen))
        return out
    reg.ground_obligation("published values are the query results (syntactic check of every _fire_events)", C11 + C09, publication_table)

    # ------------------------------------------------------------------ CB-stat on the fire family
    CB = "implies(instance(self, 'StatisticsInterface'), unchanged_except(self, '_listeners'))"
    for q in ("EventProducer.fire", "EventProducer.fire_timed"):
        reg.contracts[q].assumed_ensures.append(CB)
        reg.contracts[q].receiver_keeps = ("StatisticsInterface", ("_listeners",), "CB-stat")
        # the listener table is written only by EventProducer's own methods (frame scan, C08), each verified to keep PWF:
        # a callback can change it only through them
        reg.contracts[q].preserves.append(("StatisticsInterface", "implies(old(PWF(x)), PWF(x))"))
    reg.trust("CB-stat: listeners of a statistic's own events do not call that statistic's mutators from inside notify "
              "(after fire/fire_timed a statistic finds all its fields except the listener table unchanged)")

    reg.declare_fields("SimStatisticsInterface", _key="obj", _simulator="ref:Simulator", _event_types="set[ref:EventType]")
    for c in ("SimCounter", "SimTally", "SimWeightedTally", "SimPersistent"):
        reg.declare_fields(c, _key="obj", _simulator="ref:Simulator", _event_types="set[ref:EventType]")

    # constructor-only fields (frame scan below): a callback cannot change them for existing objects
    IMM = ["Event._content", "Event._event_type", "TimedEvent._timestamp"] + \
          ["%s.%s" % (c, f) for c in ("SimCounter", "SimTally", "SimWeightedTally", "SimPersistent")
           for f in ("_key", "_simulator")]      # not _event_types: listen_to adds to the set in place
    reg.immutable_fields.update(IMM)

    def imm_scan(table):
        out = []
        for fld in sorted({k.split(".")[1] for k in IMM}):
            w = table.assignments_to_field(fld)
            out.append(("field %s is written only by constructors" % fld, bool(w) and all(q.endswith(".__init__") for q in w),
                        "writers: %s" % w))
        return out
    reg.ground_obligation("event and simulation-statistic identity fields are constructor-only (frame scan)", C11, imm_scan)

    DATA = "StatEvents.DATA_EVENT"
    WARM = "ReplicationInterface.WARMUP_EVENT"
    EV = "asref(event, 'Event')"
    CONTENT = "%s._content" % EV
    ETY = "%s._event_type" % EV
    XV = "val(num(value))"
    FINITE = lambda v: "not isref(%s) and (not isnum(%s) or isnan(num(%s)) or isfin(%s))" % (v, v, v, v)
    ONRAISE = {"TypeError": "unchanged", "ValueError": "unchanged", "CallbackError": "any"}
    CBERR = [("CallbackError", "not map_empty(self._listeners)")]     # only a listener of the statistic can fail

    TSTATE = "'_listeners', '_n', '_sum', '_m1', '_m2', '_m3', '_m4', '_min', '_max', 'g_obs', 'g_p1', 'g_p2', 'g_p3', 'g_p4'"
    CSTATE = "'_listeners', '_n', '_count', 'g_sum', 'g_cnt'"
    TKEEP = "unchanged_except(self, %s)" % TSTATE       # e.g. the subscribed data event types of a Sim statistic
    CKEEP = "unchanged_except(self, %s)" % CSTATE
    # ---------------------------------------------------------------- tally family
    TF = ["EventBasedTally", "SimTally"]
    GHOST_APPEND = ("self.g_obs == store(old(self.g_obs), old(self._n), %s) and self.g_p1 == old(self.g_p1) + %s"
                    " and self.g_p2 == old(self.g_p2) + %s ** 2 and self.g_p3 == old(self.g_p3) + %s ** 3"
                    " and self.g_p4 == old(self.g_p4) + %s ** 4" % (XV, XV, XV, XV, XV))
    reg.contracts["Tally.register"].for_classes = ["Tally"] + TF
    reg.contracts["Tally.initialize"].for_classes = ["Tally"] + TF
    for g in ("n", "min", "max", "sum", "mean", "variance", "stdev", "skewness", "kurtosis", "excess_kurtosis"):
        reg.contracts["Tally." + g].for_classes = ["Tally"]       # getters do not depend on the receiver class
    reg.contract("EventBasedTally._fire_events", params={"value": "obj"},
                 requires=["TI(self)", "PWF(self)"], may_raise=CBERR, on_raise="any",
                 ensures=["TI(self)", "PWF(self)", "unchanged_except(self, '_listeners')"], exc_ensures=["unchanged_except(self, '_listeners')"],
                 modifies=["heap.*"], for_classes=["EventBasedTally"], props=C11 + C09, axiom_sets=AX)
    reg.contract("SimTally._fire_events", params={"value": "obj"},
                 requires=["TI(self)", "PWF(self)"], may_raise=CBERR, on_raise="any",
                 ensures=["TI(self)", "PWF(self)", "unchanged_except(self, '_listeners')"], exc_ensures=["unchanged_except(self, '_listeners')"],
                 modifies=["heap.*"], props=C11, axiom_sets=AX)
    reg.contract("EventBasedTally.register", params={"value": "obj"},
                 requires=["TI(self)", "PWF(self)", FINITE("value")],
                 raises=[("TypeError", "not isnum(value)"), ("ValueError", "isnum(value) and isnan(num(value))")],
                 may_raise=CBERR, on_raise=ONRAISE,
                 # exactly the plain tally's register, then (only if somebody listens) publication
                 ensures=["TI(self)", "PWF(self)", TKEEP, "self._n == old(self._n) + 1", GHOST_APPEND],
                 exc_ensures=[],
                 modifies=["heap.*"], for_classes=TF, props=C11 + C09, axiom_sets=AX)
    reg.contract("EventBasedTally.initialize", params={}, requires=["PWF(self)"], may_raise=CBERR, on_raise="any",
                 ensures=["TI(self)", "PWF(self)", TKEEP, "self._n == 0"], modifies=["heap.*"], for_classes=TF, props=C11 + C09, axiom_sets=AX)
    for q in ("EventBasedTally._fire_initialized", "SimTally._fire_initialized", "EventBasedCounter._fire_initialized",
              "SimCounter._fire_initialized"):
        reg.contract(q, params={}, inline=True)
    DATA_OK = "instance(event, 'Event') and %s == %s and isnum(%s)" % (ETY, DATA, CONTENT)
    reg.contract("EventBasedTally.notify", params={"event": "obj"},
                 requires=["TI(self)", "PWF(self)", "implies(instance(event, 'Event'), %s)" % FINITE(CONTENT)],
                 raises=[("TypeError", "not instance(event, 'Event') or (%s == %s and not isnum(%s))" % (ETY, DATA, CONTENT)),
                         ("ValueError", "instance(event, 'Event') and (%s != %s or (isnum(%s) and isnan(num(%s))))" % (ETY, DATA, CONTENT, CONTENT))],
                 may_raise=CBERR, on_raise=ONRAISE,
                 ensures=["TI(self)", "PWF(self)", TKEEP, "self._n == old(self._n) + 1",
                          "self.g_obs == store(old(self.g_obs), old(self._n), old(val(num(%s))))" % CONTENT],
                 modifies=["heap.*"], for_classes=TF, props=C11 + C09, axiom_sets=AX)
    SIMWF = "True"
    # SimTally.notify: data event of a subscribed type -> exactly one register of the payload; WARMUP -> initialize;
    # anything else -> nothing changes
    SUB = "inset(%s, self._event_types)" % ETY
    reg.contract("SimTally.notify", params={"event": "obj"},
                 requires=["TI(self)", "PWF(self)", "instance(event, 'Event')", "implies(%s, %s)" % (SUB, FINITE(CONTENT))],
                 raises=[("TypeError", "%s and not isnum(%s)" % (SUB, CONTENT)),
                         ("ValueError", "%s and isnum(%s) and isnan(num(%s))" % (SUB, CONTENT, CONTENT))],
                 may_raise=CBERR, on_raise=ONRAISE,
                 ensures=["TI(self)", "PWF(self)", "self._event_types == old(self._event_types)",
                          "implies(old(%s), self._n == old(self._n) + 1"
                          " and self.g_obs == store(old(self.g_obs), old(self._n), old(val(num(%s)))))" % (SUB, CONTENT),
                          "implies(not old(%s) and old(%s) == %s, self._n == 0)" % (SUB, ETY, WARM),
                          "implies(not old(%s) and old(%s) != %s, unchanged_except(self))" % (SUB, ETY, WARM)],
                 modifies=["heap.*"], props=C11, axiom_sets=AX)

    # ---------------------------------------------------------------- counter family
    CF = ["EventBasedCounter", "SimCounter"]
    reg.contracts["Counter.register"].for_classes = ["Counter"] + CF
    reg.contracts["Counter.initialize"].for_classes = ["Counter"] + CF
    for cq in ("EventBasedCounter._fire_events", "SimCounter._fire_events"):
        reg.contract(cq, params={"value": "obj"}, requires=["CI(self)", "PWF(self)"], may_raise=CBERR, on_raise="any",
                     ensures=["CI(self)", "PWF(self)", "unchanged_except(self, '_listeners')"], exc_ensures=["unchanged_except(self, '_listeners')"],
                     modifies=["heap.*"], props=C11 + (C09 if cq.startswith("EventBased") else []), axiom_sets=AX)
    reg.contract("EventBasedCounter.register", params={"value": "obj"},
                 requires=["CI(self)", "PWF(self)"],
                 raises=[("TypeError", "not isint(value)")], may_raise=CBERR, on_raise=ONRAISE,
                 ensures=["CI(self)", "PWF(self)", CKEEP, "self.g_sum == old(self.g_sum) + ival(value)", "self.g_cnt == old(self.g_cnt) + 1"],
                 modifies=["heap.*"], for_classes=CF, props=C11 + C09, axiom_sets=AX)
    reg.contract("EventBasedCounter.initialize", params={}, requires=["PWF(self)"], may_raise=CBERR, on_raise="any",
                 ensures=["CI(self)", "PWF(self)", CKEEP, "self.g_cnt == 0 and self.g_sum == 0"], modifies=["heap.*"], for_classes=CF,
                 props=C11 + C09, axiom_sets=AX)
    reg.contract("EventBasedCounter.notify", params={"event": "obj"},
                 requires=["CI(self)", "PWF(self)"],
                 raises=[("TypeError", "not instance(event, 'Event') or (%s == %s and not isint(%s))" % (ETY, DATA, CONTENT)),
                         ("ValueError", "instance(event, 'Event') and %s != %s" % (ETY, DATA))],
                 may_raise=CBERR, on_raise=ONRAISE,
                 ensures=["CI(self)", "PWF(self)", CKEEP, "self.g_sum == old(self.g_sum) + old(ival(%s))" % CONTENT, "self.g_cnt == old(self.g_cnt) + 1"],
                 modifies=["heap.*"], for_classes=CF, props=C11 + C09, axiom_sets=AX)
    reg.contract("SimCounter.notify", params={"event": "obj"},
                 requires=["CI(self)", "PWF(self)", "instance(event, 'Event')"],
                 raises=[("TypeError", "%s and not isint(%s)" % (SUB, CONTENT))],
                 may_raise=CBERR, on_raise=ONRAISE,
                 ensures=["CI(self)", "PWF(self)", "self._event_types == old(self._event_types)",
                          "implies(old(%s), self.g_sum == old(self.g_sum) + old(ival(%s)) and self.g_cnt == old(self.g_cnt) + 1)" % (SUB, CONTENT),
                          "implies(not old(%s) and old(%s) == %s, self.g_cnt == 0 and self.g_sum == 0)" % (SUB, ETY, WARM),
                          "implies(not old(%s) and old(%s) != %s, unchanged_except(self))" % (SUB, ETY, WARM)],
                 modifies=["heap.*"], props=C11, axiom_sets=AX)

    # without listeners the event-based statistics behave exactly like the plain ones: only the statistic's own
    # accumulators change (nohavoc.* obligations on each function; used by the constructors)
    QT = ["self." + f for f in ("_n", "_sum", "_m1", "_m2", "_m3", "_m4", "_min", "_max", "g_obs", "g_p1", "g_p2", "g_p3", "g_p4")]
    QC = ["self." + f for f in ("_n", "_count", "g_sum", "g_cnt")]
    LISTENED = "not map_empty(self._listeners)"
    for q, quiet in (("EventBasedTally._fire_events", []), ("SimTally._fire_events", []), ("EventBasedTally.register", QT),
                     ("EventBasedTally.initialize", QT), ("EventBasedTally.notify", QT), ("SimTally.notify", QT),
                     ("EventBasedCounter._fire_events", []), ("SimCounter._fire_events", []), ("EventBasedCounter.register", QC),
                     ("EventBasedCounter.initialize", QC), ("EventBasedCounter.notify", QC), ("SimCounter.notify", QC)):
        reg.contracts[q].havoc_only_if = LISTENED
        reg.contracts[q].quiet_modifies = quiet

    from contracts import _simstats_w
    _simstats_w.load_weighted(reg, AX, CBERR, ONRAISE, LISTENED, WARM, EV, CONTENT, ETY, SUB)
    from contracts import _simstats_p
    _simstats_p.load_persistent(reg, AX, CBERR, ONRAISE, LISTENED, WARM, EV, CONTENT, ETY, SUB)

    # ---------------------------------------------------------------- registration in the model; construction
    OS = "self._output_statistics"
    reg.contract("DSOLModel.add_output_statistic", params={"key": "str", "statistic": "obj"},
                 raises=[("DSOLError", "has(%s, key)" % OS),
                         ("TypeError", "not has(%s, key) and not instance(statistic, 'StatisticsInterface')" % OS)],
                 ensures=["mapeq(%s, map_put(old(%s), key, asref(statistic, 'StatisticsInterface')))" % (OS, OS)],
                 modifies=[OS], on_raise="unchanged", props=C11, axiom_sets=("seqstr", "pmap"))
    reg.contract("DSOLModel.get_output_statistic", params={"key": "str"}, returns="ref:StatisticsInterface",
                 raises=[("KeyError", "not has(%s, key)" % OS)],
                 ensures=["result == get(%s, key)" % OS], pure=True, props=C11, axiom_sets=("seqstr", "pmap"))
    reg.contract("DSOLModel.output_statistics", params={}, inline=True)
    SIM = "asref(simulator, 'Simulator')"
    MODEL = "asref(%s._model, 'DSOLModel')" % SIM
    HASMODEL = "not isnone(%s._model)" % SIM
    ARGS_OK = "isstr(key) and isstr(name) and instance(simulator, 'SimulatorInterface')"
    ENDREP = "ReplicationInterface.END_REPLICATION_EVENT"
    for cls, base, INV in (("SimTally", "EventBasedTally", "TI"), ("SimCounter", "EventBasedCounter", "CI"),
                           ("SimWeightedTally", "EventBasedWeightedTally", "WI"),
                           ("SimPersistent", "EventBasedTimestampWeightedTally", "TWI")):
        zero = {"TI": "self._n == 0", "CI": "self.g_cnt == 0 and self.g_sum == 0", "WI": "self._n == 0 and self.g_nz == 0",
                "TWI": "self._n == 0 and self._active and isnan(self._start_time)"}[INV]
        plains = {"TI": ["Tally"], "CI": ["Counter"], "WI": ["WeightedTally"], "TWI": ["WeightedTally", "TimestampWeightedTally"]}[INV]
        DTYPE = {"WI": "StatEvents.WEIGHT_DATA_EVENT", "TWI": "StatEvents.TIMESTAMP_DATA_EVENT"}.get(INV, DATA)
        CPR, CET = "asref(producer, 'EventProducer')", "asref(event_type, 'EventType')"
        WITHP = "(not isnone(producer) and not isnone(event_type))"
        # the data types: the family's own data event, plus the type given at construction (with its producer)
        ONLY_DATA = ("forall('e:ref:EventType', inset(e, self._event_types) == (e == %s or (%s and e == %s)))" % (DTYPE, WITHP, CET))
        PARGS_OK = "((isnone(producer) and isnone(event_type)) or (instance(producer, 'EventProducer') and instance(event_type, 'EventType')))"
        pc = reg.contracts["EventProducer.__init__"]
        pc.for_classes = list(dict.fromkeys((pc.for_classes or ["EventProducer"]) + [base, cls]))
        # the plain constructor run on an event-producing subclass: its initialize() is the overriding one, which
        # announces INITIALIZED to the (at construction: no) listeners
        for plain in plains:
            reg.contract_variant(plain + ".__init__", [base, cls], params={"name": "obj"},
                                 requires=["PWF(self)", "map_empty(self._listeners)"],
                                 raises=[("TypeError", "not isstr(name)")], on_raise="any",
                                 ensures=["%s(self)" % INV, "PWF(self)", "map_empty(self._listeners)", zero],
                                 ghost_exit=list(reg.contracts[plain + ".__init__"].ghost_exit),
                                 modifies=["self.*"], props=C11, axiom_sets=AX)
        reg.contract(base + ".__init__", params={"name": "obj"},
                     raises=[("TypeError", "not isstr(name)")], on_raise="any",
                     ensures=["%s(self)" % INV, "PWF(self)", "map_empty(self._listeners)", zero],
                     modifies=["self.*"], for_classes=[base, cls], props=C11, axiom_sets=AX)
        reg.contract(cls + ".__init__",
                     params={"key": "obj", "name": "obj", "simulator": "obj", "producer": "obj", "event_type": "obj"},
                     # scope: without an initial data producer, or with producer AND event type (a producer alone is refused by
                     # listen_to with a TypeError -- the documented default type is not applied -- and is outside this contract)
                     requires=["(isnone(producer) and isnone(event_type)) or %s" % WITHP,
                               "implies(instance(simulator, 'SimulatorInterface'), PWF(%s) and %s != self)" % (SIM, SIM),
                               "implies(instance(producer, 'EventProducer'), PWF(%s) and %s != self)" % (CPR, CPR)],
                     raises=[("TypeError", "not (%s and %s)" % (ARGS_OK, PARGS_OK)),
                             ("DSOLError", "%s and %s and %s and has(%s._output_statistics, strval(key))" % (ARGS_OK, PARGS_OK, HASMODEL, MODEL))],
                     on_raise="any",
                     ensures=["%s(self)" % INV, "PWF(self)", "map_empty(self._listeners)", zero, ONLY_DATA,
                              # subscribed to the simulator's warm-up notification
                              "has(%s._listeners, %s) and contains(get(%s._listeners, %s), self)" % (SIM, WARM, SIM, WARM)] +
                             # a persistent statistic also listens for the end of the replication (to close itself)
                             (["has(%s._listeners, %s) and contains(get(%s._listeners, %s), self)" % (SIM, ENDREP, SIM, ENDREP)]
                              if INV == "TWI" else []) + [
                              # listening to the initial producer for the given type
                              "implies(%s, has(%s._listeners, %s) and contains(get(%s._listeners, %s), self))" % (WITHP, CPR, CET, CPR, CET),
                              # retrievable from the model under its key
                              "implies(%s, has(%s._output_statistics, strval(key))"
                              " and get(%s._output_statistics, strval(key)) == self)" % (HASMODEL, MODEL, MODEL)],
                     modifies=["self.*", "%s._listeners" % SIM, "%s._output_statistics" % MODEL, "%s._listeners" % CPR],
                     props=C11, axiom_sets=AX + ("seqstr", "pmap"))
    reg.lemma("statistic_created_with_a_key_is_retrievable_under_it", """
def retr(m, key, st, other):
    assume(instance(st, 'StatisticsInterface') and not has(m._output_statistics, key))
    m.add_output_statistic(key, st)
    r = m.get_output_statistic(key)
    assert r == asref(st, 'StatisticsInterface'), "the statistic is retrievable under its key"
""", params={"m": "ref:DSOLModel", "key": "str", "st": "obj", "other": "str"}, props=C11, axiom_sets=("seqstr", "pmap"))

    # ---------------------------------------------------------------- lemmas over the contracts
    # the statistic after [observations..., WARMUP, observations...] is the statistic of the observations after the
    # last warm-up: one step of the fold (a warm-up notification forgets everything; a data notification appends)
    reg.lemma("simtally_warmup_resets_then_accumulates", """
def warm(t, e_data, e_warm, e_data2, x2):
    assume(TI(t) and PWF(t) and instance(e_data, 'Event') and instance(e_warm, 'Event') and instance(e_data2, 'Event'))
    assume(inset(asref(e_data, 'Event')._event_type, t._event_types) and inset(asref(e_data2, 'Event')._event_type, t._event_types))
    assume(not inset(asref(e_warm, 'Event')._event_type, t._event_types))
    assume(asref(e_warm, 'Event')._event_type == ReplicationInterface.WARMUP_EVENT)
    assume(isnum(asref(e_data, 'Event')._content) and isfin(asref(e_data, 'Event')._content) and not isref(asref(e_data, 'Event')._content))
    assume(isnum(asref(e_data2, 'Event')._content) and isfin(asref(e_data2, 'Event')._content) and not isref(asref(e_data2, 'Event')._content))
    assume(x2 == val(num(asref(e_data2, 'Event')._content)))
    t.notify(e_data)
    t.notify(e_warm)
    assert t._n == 0, "a warm-up notification forgets every earlier observation"
    t.notify(e_data2)
    assert t._n == 1 and t.g_obs[0] == x2, "afterwards the statistic is that of the observations made since"
""", params={"t": "ref:SimTally", "e_data": "obj", "e_warm": "obj", "e_data2": "obj", "x2": "real"}, props=C11, axiom_sets=AX)
    # warm-up precedes normal-priority model events of the same instant: its event has maximum priority
    reg.lemma("warmup_precedes_normal_priority_events_of_the_same_instant", """
def warm_first(w, e):
    assume(VALID_EVENT(w) and VALID_EVENT(e) and same(w._absolute_time, e._absolute_time))
    assume(w._priority == SimEventInterface.MAX_PRIORITY and e._priority < SimEventInterface.MAX_PRIORITY)
    assert lt_e(ENTRY(w), ENTRY(e)), "the warm-up event is handed out before every lower-priority event of the same time"
""", params={"w": "ref:SimEvent", "e": "ref:SimEvent"}, props=C11)


_load_ss0 = load


def load(reg):      # noqa: F811
    """listen_to of the four simulation statistics: the statistic subscribes itself to the producer for the event type and treats
    that type as data from now on; ill-typed arguments are refused with nothing changed."""
    _load_ss0(reg)
    C11 = ["C11"]
    PR = "asref(producer, 'EventProducer')"
    ET = "asref(event_type, 'EventType')"
    for cls in ("SimCounter", "SimTally", "SimWeightedTally", "SimPersistent"):
        reg.contract("%s.listen_to" % cls, params={"producer": "obj", "event_type": "obj"},
                     requires=["implies(instance(producer, 'EventProducer'), PWF(%s))" % PR],
                     raises=[("TypeError", "not instance(producer, 'EventProducer') or not instance(event_type, 'EventType')")],
                     on_raise="unchanged",
                     ensures=[
                         # the type counts as data from now on; every type that did before still does
                         "inset(%s, self._event_types)" % ET,
                         "forall('e:ref:EventType', implies(e != %s, inset(e, self._event_types) == old(inset(e, self._event_types))))" % ET,
                         # subscribed to the producer for that type (whole-map clause of add_listener for the rest)
                         "PWF(%s)" % PR, "has(%s._listeners, %s) and contains(get(%s._listeners, %s), self)" % (PR, ET, PR, ET),
                         "forall('k:ref:EventType', implies(k != %s, has(%s._listeners, k) == old(has(%s._listeners, k))"
                         " and implies(old(has(%s._listeners, k)), get(%s._listeners, k) == old(get(%s._listeners, k)))))" % (ET, PR, PR, PR, PR, PR)],
                     modifies=["self._event_types", "%s._listeners" % PR], props=C11, axiom_sets=("seqref",))

    # ---- BOUNDED stand-in (never counted as proved): the four simulation statistics driven through the real publish /
    # subscribe path against the plain statistic of their family fed the observations since the last warm-up
    def schedule_sweep(table):
        from pyvc.ground import run_native
        res = run_native({"function": "SimPersistent.notify", "obligation": "bounded-sweep", "property": "C11"})
        return [("BOUNDED: 160 generated observation / clock / warm-up / end-of-replication schedules (40 per family; 5x in the thorough tier) over {SimCounter, "
                 "SimTally, SimWeightedTally, SimPersistent} (data through a real producer, warm-up and replication end through the "
                 "simulator's own notifications): every query equals the plain statistic fed the observations since the last warm-up",
                 not res.get("reproduced"), res.get("observed") or res.get("note"))]
    reg.ground_obligation("BOUNDED stand-in: native schedule sweep of the simulation statistics", C11, schedule_sweep)
