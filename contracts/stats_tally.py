"""Sidecar contracts: Counter and Tally (property C09).

Ghost state of a Tally: ``g_obs`` (an int-indexed array, valid on 0.._n-1) the observations accepted since the
last initialize(), ``g_p1..g_p4`` their power sums (p_k = sum of obs**k, maintained together
with g_obs by the contract of register -- this *is* the inductive definition of the sums).
Numeric model: observations and accumulators are mathematical reals; _min/_max and
returned values may be NaN/inf (XREAL).
"""


def load(reg):
    C09 = ["C09"]
    # ------------------------------------------------------------------ Counter
    reg.declare_fields("Counter", _name="str", _count="int", _n="int",
                       g_sum="int", g_cnt="int", ghost=("g_sum", "g_cnt"))
    reg.define("CI(c)", "c._count == c.g_sum and c._n == c.g_cnt and c.g_cnt >= 0")
    reg.contract("Counter.__init__", params={"name": "obj"},
                 raises=[("TypeError", "not isstr(name)")],
                 ensures=["CI(self)", "self.g_cnt == 0", "self.g_sum == 0", "self._count == 0", "self._n == 0"],
                 modifies=["self.*"],
                 ghost_exit=[("self.g_sum", "0"), ("self.g_cnt", "0")],
                 on_raise="any", props=C09)
    reg.contract("Counter.initialize", params={},
                 ensures=["CI(self)", "self.g_cnt == 0", "self.g_sum == 0"],
                 modifies=["self._count", "self._n"],
                 ghost_exit=[("self.g_sum", "0"), ("self.g_cnt", "0")], props=C09)
    reg.contract("Counter.register", params={"value": "obj"},
                 requires=["CI(self)"],
                 raises=[("TypeError", "not isint(value)")],
                 ensures=["CI(self)"],
                 modifies=["self._count", "self._n"],
                 ghost_exit=[("self.g_sum", "old(self.g_sum) + ival(value)"),
                             ("self.g_cnt", "old(self.g_cnt) + 1")], props=C09)
    reg.contract("Counter.count", params={}, returns="int", requires=["CI(self)"],
                 ensures=["result == self.g_sum"], pure=True, props=C09)
    reg.contract("Counter.n", params={}, returns="int", requires=["CI(self)"],
                 ensures=["result == self.g_cnt"], pure=True, props=C09)

    # ------------------------------------------------------------------ Tally
    reg.declare_fields("Tally", _name="str", _n="int", _sum="real", _m1="real", _m2="real",
                       _m3="real", _m4="real", _min="xreal", _max="xreal",
                       g_obs="arr[real]", g_p1="real", g_p2="real", g_p3="real", g_p4="real",
                       ghost=("g_obs", "g_p1", "g_p2", "g_p3", "g_p4"))
    # mu = p1/n ; central moment sums expanded in power sums
    reg.define("MU(t)", "t.g_p1 / t._n")
    reg.define("TI_moments(t)",
               "t._m1 == MU(t) and t._m2 == t.g_p2 - t._n * MU(t) * MU(t)"
               " and t._m3 == t.g_p3 - 3 * MU(t) * t.g_p2 + 2 * t._n * MU(t) * MU(t) * MU(t)"
               " and t._m4 == t.g_p4 - 4 * MU(t) * t.g_p3 + 6 * MU(t) * MU(t) * t.g_p2"
               "             - 3 * t._n * MU(t) * MU(t) * MU(t) * MU(t)"
               " and t._m2 >= 0")
    reg.define("TI_minmax(t)",
               "isfin(t._min) and isfin(t._max)"
               " and forall('i:int', implies(0 <= i and i < t._n,"
               "            val(t._min) <= t.g_obs[i] and t.g_obs[i] <= val(t._max)))"
               " and exists('i:int', 0 <= i and i < t._n and t.g_obs[i] == val(t._min))"
               " and exists('i:int', 0 <= i and i < t._n and t.g_obs[i] == val(t._max))")
    reg.define("TI_zero(t)",
               "t._sum == 0 and t._m1 == 0 and t._m2 == 0 and t._m3 == 0 and t._m4 == 0"
               " and t.g_p1 == 0 and t.g_p2 == 0 and t.g_p3 == 0 and t.g_p4 == 0"
               " and isnan(t._min) and isnan(t._max)")
    reg.define("TI(t)",
               "t._n >= 0 and t._sum == t.g_p1"
               " and implies(t._n == 0, TI_zero(t))"
               " and implies(t._n > 0, TI_moments(t) and TI_minmax(t))")

    tally_mod = ["self._n", "self._sum", "self._m1", "self._m2", "self._m3", "self._m4",
                 "self._min", "self._max"]
    ghost_reset = [("self.g_p1", "0.0"), ("self.g_p2", "0.0"),
                   ("self.g_p3", "0.0"), ("self.g_p4", "0.0")]
    reg.contract("Tally.__init__", params={"name": "obj"},
                 raises=[("TypeError", "not isstr(name)")],
                 ensures=["TI(self)", "self._n == 0"],
                 modifies=["self.*"], ghost_exit=ghost_reset, on_raise="any", props=C09)
    reg.contract("Tally.initialize", params={},
                 ensures=["TI(self)", "self._n == 0"],
                 modifies=tally_mod, ghost_exit=ghost_reset, props=C09)
    # observations are finite numbers (the property's domain): +-inf is excluded by the
    # precondition; non-numbers and NaN must be rejected with everything unchanged
    reg.contract("Tally.register", params={"value": "obj"},
                 requires=["TI(self)", "not isref(value)", "not isnum(value) or isnan(num(value)) or isfin(value)"],
                 raises=[("TypeError", "not isnum(value)"),
                         ("ValueError", "isnum(value) and isnan(num(value))")],
                 ensures=["TI(self)", "self._n == old(self._n) + 1"],
                 labels={"TI(self)": "TI"},
                 modifies=tally_mod,
                 ghost_exit=[("self.g_obs", "store(old(self.g_obs), old(self._n), val(num(value)))"),
                             ("self.g_p1", "old(self.g_p1) + val(num(value))"),
                             ("self.g_p2", "old(self.g_p2) + val(num(value)) ** 2"),
                             ("self.g_p3", "old(self.g_p3) + val(num(value)) ** 3"),
                             ("self.g_p4", "old(self.g_p4) + val(num(value)) ** 4")],
                 props=C09)

    # bounded stand-in (labelled BOUNDED, never counted as proved): floats are idealised as reals, so a guard such as
    # "alpha > 0 implies 1 - alpha/2 < 1" is true in the model and false in float arithmetic; the native sweep calls
    # every query on short histories with rounding-sensitive arguments
    def totality_sweep(table):
        from pyvc.ground import run_native
        res = run_native({"function": "Tally.confidence_interval", "obligation": "bounded-sweep", "property": "C09"})
        return [("BOUNDED: every query of Tally / EventBasedTally / Counter on histories of length 0..6 (equal values, extreme "
                 "magnitudes), both bias flags, confidence levels incl. 0, 5e-324, 2^-53, 1-2^-53, 1: a number or NaN, never an "
                 "exception", not res.get("reproduced"), res.get("observed") or res.get("note"))]
    reg.ground_obligation("BOUNDED stand-in: native totality sweep of the statistics queries (float rounding)", C09, totality_sweep)

    reg.contract("Tally.n", params={}, returns="int", requires=["TI(self)"],
                 ensures=["result == self._n"], pure=True, props=C09)
    reg.contract("Tally.sum", params={}, returns="real", requires=["TI(self)"],
                 ensures=["result == self.g_p1"], pure=True, props=C09)
    reg.contract("Tally.min", params={}, returns="xreal", requires=["TI(self)"],
                 ensures=["implies(self._n == 0, isnan(result))",
                          "implies(self._n > 0, isfin(result) and same(result, self._min))"],
                 pure=True, props=C09)
    reg.contract("Tally.max", params={}, returns="xreal", requires=["TI(self)"],
                 ensures=["implies(self._n == 0, isnan(result))",
                          "implies(self._n > 0, isfin(result) and same(result, self._max))"],
                 pure=True, props=C09)
    reg.contract("Tally.mean", params={}, returns="xreal", requires=["TI(self)"],
                 ensures=["implies(self._n == 0, isnan(result))",
                          "implies(self._n > 0, isfin(result) and val(result) == self.g_p1 / self._n)"],
                 pure=True, props=C09)
    # variance: documented formula (1/n)(sum x^2 - (sum x)^2/n), resp. 1/(n-1)
    reg.define("SS(t)", "t.g_p2 - t.g_p1 * t.g_p1 / t._n")
    reg.contract("Tally.variance", params={"biased": "bool"}, returns="xreal", requires=["TI(self)"],
                 ensures=["implies(biased and self._n > 0, isfin(result) and val(result) == SS(self) / self._n)",
                          "implies(not biased and self._n > 1, isfin(result) and val(result) == SS(self) / (self._n - 1))",
                          "implies((biased and self._n == 0) or (not biased and self._n <= 1), isnan(result))",
                          "implies(isfin(result), val(result) >= 0)"],
                 pure=True, props=C09)
    reg.contract("Tally.stdev", params={"biased": "bool"}, returns="xreal", requires=["TI(self)"],
                 ensures=["implies(biased and self._n > 0, isfin(result) and val(result) >= 0 and val(result) * val(result) == SS(self) / self._n)",
                          "implies(not biased and self._n > 1, isfin(result) and val(result) >= 0 and val(result) * val(result) == SS(self) / (self._n - 1))",
                          "implies((biased and self._n == 0) or (not biased and self._n <= 1), isnan(result))"],
                 pure=True, props=C09)
    # skewness / kurtosis: total (never raise); NaN when undefined: too few observations or
    # zero variance.  Defined value = documented formula.
    reg.define("VARB(t)", "SS(t) / t._n")
    reg.define("M3(t)", "t.g_p3 - 3 * MU(t) * t.g_p2 + 2 * t._n * MU(t) * MU(t) * MU(t)")
    reg.define("M4(t)", "t.g_p4 - 4 * MU(t) * t.g_p3 + 6 * MU(t) * MU(t) * t.g_p2 - 3 * t._n * MU(t) * MU(t) * MU(t) * MU(t)")
    reg.contract("Tally.skewness", params={"biased": "bool"}, returns="xreal", requires=["TI(self)"],
                 ensures=["implies(self._n <= 1 or (not biased and self._n <= 2), isnan(result))",
                          "implies(self._n > 1 and VARB(self) == 0, isnan(result))",
                          "implies(biased and self._n > 1 and VARB(self) > 0, isfin(result) and"
                          " val(result) * powf(VARB(self), 1.5) == M3(self) / self._n)"],
                 labels={"implies(self._n > 1 and VARB(self) == 0, isnan(result))": "nan-on-zero-variance"},
                 pure=True, props=C09)
    reg.contract("Tally.kurtosis", params={"biased": "bool"}, returns="xreal", requires=["TI(self)"],
                 ensures=["implies((biased and self._n <= 2) or (not biased and self._n <= 3), isnan(result))",
                          "implies(self._n > 2 and VARB(self) == 0, isnan(result))",
                          "implies(biased and self._n > 2 and VARB(self) > 0, isfin(result) and"
                          " val(result) * VARB(self) * VARB(self) == M4(self) / self._n)",
                          "implies(not biased and self._n > 3 and VARB(self) > 0, isfin(result) and"
                          " val(result) * (SS(self) / (self._n - 1)) * (SS(self) / (self._n - 1)) == M4(self) / (self._n - 1))"],
                 pure=True, props=C09)
    reg.contract("Tally.excess_kurtosis", params={"biased": "bool"}, returns="xreal", requires=["TI(self)"],
                 ensures=["implies((biased and self._n <= 2) or (not biased and self._n <= 3), isnan(result))",
                          "implies(self._n > 2 and VARB(self) == 0, isnan(result))",
                          "implies(biased and self._n > 2 and VARB(self) > 0, isfin(result) and"
                          " (val(result) + 3) * VARB(self) * VARB(self) == M4(self) / self._n)"],
                 pure=True, props=C09)
    # confidence interval: documented TypeError / ValueError only
    reg.contract("Tally.confidence_interval", params={"alpha": "obj"}, returns="tup[xreal,xreal]",
                 requires=["TI(self)"],
                 raises=[("TypeError", "not isfloat(alpha)"),
                         ("ValueError", "isfloat(alpha) and not (isfin(alpha) and 0 <= val(num(alpha)) and val(num(alpha)) <= 1)")],
                 ensures=["implies(self._n < 2, isnan(result[0]) and isnan(result[1]))",
                          "implies(self._n >= 2, isfin(result[0]) and isfin(result[1])"
                          " and val(self._min) <= val(result[0]) and val(result[1]) <= val(self._max))"],
                 pure=True, props=C09)
