"""Sidecar contracts: event-based timestamped tally and SimPersistent (C11; event-publishing variant of C10).

SimPersistent.notify dispatches four ways: a TIMESTAMP_DATA event is an observation at the event's own timestamp; an
event of a subscribed type is an observation of its payload at the simulator clock; WARMUP is initialize; END_REPLICATION
closes the statistic at the simulator clock (end_observations), so that the time average runs to the replication end.
Everything else changes nothing.  Rejections (TypeError / ValueError) leave the statistic unchanged (strict frame); their
exact conditions are those of the C10 contracts of register / end_observations and are only bounded from above here
(may_raise), since the top-level statement of C11 is about accepted observations.
(loaded by contracts/simstats.py)
"""


def load_persistent(reg, AX, CBERR, ONRAISE, LISTENED, WARM, EV, CONTENT, ETY, SUB):
    C11, C10 = ["C11"], ["C10"]
    PF = ["EventBasedTimestampWeightedTally", "SimPersistent"]
    TSDATA = "StatEvents.TIMESTAMP_DATA_EVENT"
    ENDREP = "ReplicationInterface.END_REPLICATION_EVENT"
    fields = ("_n", "_n_nonzero", "_sum_of_weights", "_weighted_mean", "_weight_times_variance", "_weighted_sum", "_min", "_max",
              "_start_time", "_last_timestamp", "_last_value", "_active", "g_obs", "g_nz", "g_W", "g_A", "g_B")
    PSTATE = ", ".join(["'_listeners'"] + ["'%s'" % f for f in fields])
    PKEEP = "unchanged_except(self, %s)" % PSTATE
    QP = ["self." + f for f in fields]
    for q in ("TimestampWeightedTally.register", "TimestampWeightedTally.initialize", "WeightedTally.register", "WeightedTally.initialize"):
        reg.contracts[q].for_classes = list(dict.fromkeys((reg.contracts[q].for_classes or [q.split(".")[0]]) + PF))
    FIN = lambda v: "not isref(%s) and (not isnum(%s) or isnan(num(%s)) or isfin(%s))" % (v, v, v, v)
    REJECT = [("TypeError", "True"), ("ValueError", "True")]

    for q in ("EventBasedTimestampWeightedTally._fire_events",):
        reg.contract(q, params={"timestamp": "obj", "value": "obj"},
                     requires=["TWI(self)", "PWF(self)", "isnum(timestamp) and not isref(timestamp)"],
                     may_raise=CBERR, on_raise="any",
                     ensures=["TWI(self)", "PWF(self)", "unchanged_except(self, '_listeners')"],
                     exc_ensures=["unchanged_except(self, '_listeners')"], modifies=["heap.*"],
                     havoc_only_if=LISTENED, for_classes=PF, props=C11 + C10, axiom_sets=AX)

    # what one accepted observation (T, V) does -- the clauses of the C10 contract of register, over old/new state
    def observation(T, V):
        first = "(old(self._active) and isnan(old(self._last_timestamp)))"
        counted = "(old(self._active) and not isnan(old(self._last_timestamp)) and %s > val(old(self._last_timestamp)))" % T
        return ["self._last_value == %s" % V, "self._active == old(self._active)",
                "implies(%s, val(self._start_time) == %s and val(self._last_timestamp) == %s and self._n == 0"
                " and self.g_A == old(self.g_A))" % (first, T, T),
                "implies(%s, self.g_A == old(self.g_A) + old(self._last_value) * (%s - val(old(self._last_timestamp)))"
                " and self.g_W == old(self.g_W) + (%s - val(old(self._last_timestamp))) and val(self._last_timestamp) == %s"
                " and same(self._start_time, old(self._start_time)) and self._n == old(self._n) + 1)" % (counted, T, T, T),
                # otherwise (closed statistic, or a repeated timestamp): only the last value changes
                "implies(not %s and not %s, self._n == old(self._n) and self.g_A == old(self.g_A) and self.g_W == old(self.g_W)"
                " and same(self._last_timestamp, old(self._last_timestamp)) and same(self._start_time, old(self._start_time)))"
                % (first, counted)]
    reg.contract("EventBasedTimestampWeightedTally.register", params={"timestamp": "obj", "value": "obj"},
                 requires=["TWI(self)", "PWF(self)", FIN("timestamp"), FIN("value")],
                 raises=[("TypeError", "not isnum(timestamp) or not isnum(value)"),
                         ("ValueError", "isnum(timestamp) and isnum(value) and (isnan(num(value)) or isnan(num(timestamp))"
                                        " or (not isnan(self._last_timestamp) and val(num(timestamp)) < val(self._last_timestamp)))")],
                 may_raise=CBERR, on_raise=ONRAISE,
                 ensures=["TWI(self)", "PWF(self)", PKEEP] + observation("val(num(timestamp))", "val(num(value))"),
                 modifies=["heap.*"], havoc_only_if=LISTENED, quiet_modifies=QP, for_classes=PF, props=C11 + C10, axiom_sets=AX)
    reg.contract("EventBasedTimestampWeightedTally.initialize", params={}, requires=["PWF(self)"], may_raise=CBERR, on_raise="any",
                 ensures=["TWI(self)", "PWF(self)", PKEEP, "self._n == 0 and self._active and isnan(self._start_time)"],
                 modifies=["heap.*"], havoc_only_if=LISTENED, quiet_modifies=QP, for_classes=PF, props=C11 + C10, axiom_sets=AX)
    for q in ("EventBasedTimestampWeightedTally._fire_initialized", "SimPersistent._fire_initialized"):
        reg.contract(q, params={}, inline=True)
    # end_observations registers the last value once more through the *overriding* register, which publishes: on an
    # event-producing receiver the contract differs from the plain one (needs the producer invariant, may notify)
    TSV = "val(num(timestamp))"
    reg.contract_variant("TimestampWeightedTally.end_observations", PF, params={"timestamp": "obj"},
                         requires=["TWI(self)", "PWF(self)", FIN("timestamp")],
                         raises=[("TypeError", "not isnum(timestamp)"),
                                 ("ValueError", "isnum(timestamp) and (isnan(num(timestamp))"
                                                " or (not isnan(self._last_timestamp) and %s < val(self._last_timestamp)))" % TSV)],
                         may_raise=CBERR, on_raise=ONRAISE,
                         ensures=["TWI(self)", "PWF(self)", PKEEP, "not self._active",
                                  "implies(old(self._active) and not isnan(old(self._start_time)),"
                                  " self.g_W == %s - val(old(self._start_time))"
                                  " and self.g_A == old(self.g_A) + old(self._last_value) * (%s - val(old(self._last_timestamp))))" % (TSV, TSV)],
                         modifies=["heap.*"], havoc_only_if=LISTENED, quiet_modifies=QP, props=C11, axiom_sets=AX)
    TEV = "asref(event, 'TimedEvent')"
    TSTAMP = "%s._timestamp" % TEV
    T0 = "old(val(num(%s)))" % TSTAMP
    V0 = "old(val(num(%s)))" % CONTENT
    ACCEPT = "instance(event, 'TimedEvent') and %s == %s and isnum(%s)" % (ETY, TSDATA, CONTENT)
    reg.contract("EventBasedTimestampWeightedTally.notify", params={"event": "obj"},
                 requires=["TWI(self)", "PWF(self)", "instance(event, 'Event')",
                           # a TimedEvent carries a number as timestamp (its constructor's check; Quantity clocks are outside)
                           "implies(instance(event, 'TimedEvent'), isnum(%s) and %s and %s)" % (TSTAMP, FIN(TSTAMP), FIN(CONTENT))],
                 raises=[("TypeError", "not instance(event, 'TimedEvent') or (%s == %s and not isnum(%s))" % (ETY, TSDATA, CONTENT))],
                 may_raise=[("ValueError", "instance(event, 'TimedEvent')")] + CBERR, on_raise=ONRAISE,
                 ensures=["TWI(self)", "PWF(self)", PKEEP, "old(%s)" % ACCEPT] + observation(T0, V0),
                 modifies=["heap.*"], havoc_only_if=LISTENED, quiet_modifies=QP, for_classes=PF, props=C11 + C10, axiom_sets=AX)

    # ---- SimPersistent
    CLOCK = "old(val(self._simulator._simulator_time))"
    IS_TS = "%s == %s" % (ETY, TSDATA)
    reg.contract("SimPersistent.notify", params={"event": "obj"},
                 requires=["TWI(self)", "PWF(self)", "instance(event, 'Event')", "isfin(self._simulator._simulator_time)",
                           "implies(instance(event, 'TimedEvent'), isnum(%s) and %s)" % (TSTAMP, FIN(TSTAMP)),
                           "implies(%s or %s, %s)" % (IS_TS, SUB, FIN(CONTENT))],
                 may_raise=REJECT + CBERR + [("EventError", "False")], on_raise=ONRAISE,
                 ensures=["TWI(self)", "PWF(self)", "self._event_types == old(self._event_types)",
                          # (1) a timestamped data event: an observation at the event's own timestamp
                          "implies(old(%s), %s)" % (IS_TS, " and ".join("(%s)" % c for c in observation(T0, V0))),
                          # (2) an event of a subscribed type: an observation of its payload at the simulator clock
                          "implies(old(not (%s) and %s), %s)" % (IS_TS, SUB, " and ".join("(%s)" % c for c in observation(CLOCK, V0))),
                          # (3) warm-up: everything observed so far is forgotten, the statistic is open again
                          "implies(old(not (%s) and not %s and %s == %s), self._n == 0 and self._active and isnan(self._start_time))"
                          % (IS_TS, SUB, ETY, WARM),
                          # (4) end of the replication: closed at the simulator clock -- total weight = clock - first observation,
                          #     the last value is weighted up to the clock
                          "implies(old(not (%s) and not %s and %s != %s and %s == %s), not self._active"
                          " and implies(old(self._active) and not isnan(old(self._start_time)),"
                          "   self.g_W == %s - val(old(self._start_time))"
                          "   and self.g_A == old(self.g_A) + old(self._last_value) * (%s - val(old(self._last_timestamp)))))"
                          % (IS_TS, SUB, ETY, WARM, ETY, ENDREP, CLOCK, CLOCK),
                          # (5) anything else: nothing changes
                          "implies(old(not (%s) and not %s and %s != %s and %s != %s), unchanged_except(self))"
                          % (IS_TS, SUB, ETY, WARM, ETY, ENDREP)],
                 modifies=["heap.*"], havoc_only_if=LISTENED, quiet_modifies=QP, props=C11, axiom_sets=AX)
