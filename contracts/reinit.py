"""Sidecar contracts: (re-)initialisation of a simulator for a replication (C06).

Top-level postconditions are taken from the property statement: after initialize the clock is the replication
start, the run/replication states are INITIALIZED, the model was rebuilt through construct_model *on an empty event
list, an empty statistics map and (when the simulator had been initialised before) an empty listener table*, and
exactly one warm-up event of maximum priority is scheduled on top of whatever the model scheduled.  Initialising a
running simulator is refused with nothing changed.

construct_model and the initial methods are callbacks (arbitrary model code using the public API, rely condition
RELY of contracts/simulator.py).  "Two replications with the same seeds execute identical event sequences" is then
the composition of: this canonical start state (the postconditions are functions of the arguments only, not of the history), determinism of the
run path (C07) and the functional contracts of event list / pub-sub / streams (C01, C02, C08, C12); the composition
itself is meta-theory, not an SMT obligation.
"""
import z3

from pyvc import sorts as S
from pyvc.sorts import SV, REF, OBJ, PyObj
from pyvc.engine import mk_bool


def load(reg):
    C06 = ["C06"]
    AX = ("heap", "seqref", "seqstr", "pmap")
    DS = ["DEVSSimulator"]
    RS = "self._run_state"
    PS = "self._replication_state"
    RUNNING = "(%s == RunState.STARTING or %s == RunState.STARTED)" % (RS, RS)
    LS = "self._eventlist._event_list"
    W = "self._Simulator__worker"

    # hasattr(model, '_simulator'): true once DSOLModel.__init__ ran -- an uninterpreted predicate of the object
    has_sim = reg.ufun("has_simulator_attr", PyObj, z3.BoolSort())
    reg.specfun("hasattr__simulator", lambda eng, v: mk_bool(has_sim(eng.to_obj(v))))
    reg.specfun("has_simulator_attr", lambda eng, v: mk_bool(has_sim(eng.to_obj(v))))

    # ---- pieces
    reg.contract("EventListHeap.clear", params={}, ensures=["len(self._event_list) == 0", "WF(self)"],
                 modifies=["self._event_list"], props=C06, axiom_sets=AX)
    reg.contract("SimulatorWorkerThread.__init__", abstract=True, params={"name": "obj", "job": "ref:Simulator"},
                 ensures=["self._job == job"], modifies=["self.*"], effects="thread start",
                 note="threading dependency: the new run thread waits for a wake-up and does not touch the simulator before")
    reg.contract("ModelInterface.construct_model", abstract=True, params={}, modifies=["heap.*"],
                 may_raise=[("CallbackError", "True")], on_raise="any", preserves=[("DEVSSimulator", "RELY(x)")],
                 note="callback: arbitrary model code using the public API of the simulator (schedule events, create statistics)")
    reg.contract("time.sleep", abstract=True, params={"t": "obj"}, modifies=[], effects="wall-clock wait")

    # cleanup: listeners of the previous replication dropped, run thread finalised, state NOT_INITIALIZED
    reg.contract("Simulator.cleanup", params={}, requires=["PWF(self)"],
                 ensures=["map_empty(self._listeners)", "PWF(self)", "%s == RunState.NOT_INITIALIZED" % RS,
                          "%s == ReplicationState.NOT_INITIALIZED" % PS, "%s is None" % W],
                 modifies=["self._listeners", "self._run_state", "self._replication_state", "self._Simulator__worker", "self._runflag"],
                 effects="wall-clock wait for the run thread", for_classes=DS, props=C06, axiom_sets=AX)

    MODEL_OK = "instance(model, 'ModelInterface') and has_simulator_attr(model) and instance(replication, 'ReplicationInterface')"
    REPL = "asref(replication, 'Replication')"
    RC = "%s._run_control" % REPL
    MODEL = "asref(model, 'DSOLModel')"
    REQ = ["SINV(self)", "WF(self._eventlist)",
           # replication data as validated by RunControl.__init__: finite times, start <= warm-up <= end
           "implies(instance(replication, 'ReplicationInterface'), not isnan(%s._start_sim_time) and not isnan(%s._warmup_sim_time)"
           " and %s._start_sim_time <= %s._warmup_sim_time and %s._warmup_sim_time <= %s._end_sim_time"
           " and isfin(%s._start_sim_time) and isfin(%s._warmup_sim_time))" % (RC, RC, RC, RC, RC, RC, RC, RC),
           "implies(%s is not None, instance(%s, 'SimulatorWorkerThread'))" % (W, W)]
    # the state in which the model is (re)built -- asserted at the call of construct_model
    reg.ghost_before_call("Simulator.initialize", "construct_model",
                          asserts=["same(self._simulator_time, %s._start_sim_time)" % RC,
                                   "len(%s) == 0" % LS,
                                   "map_empty(%s._output_statistics)" % MODEL,
                                   # a simulator that was initialised before starts without the listeners of the previous replication
                                   "implies(old(%s) is not None, map_empty(self._listeners))" % W])
    POST = ["same(self._simulator_time, %s._start_sim_time)" % RC,
            "%s == RunState.INITIALIZED or %s == RunState.STOPPING" % (RS, RS),
            "%s == ReplicationState.INITIALIZED" % PS,
            "self._replication == %s and self._model == asref(model, 'ModelInterface')" % REPL,
            "%s is not None and %s != old(%s)" % (W, W, W),
            "SINV(self)"]
    reg.contract("Simulator.initialize", params={"model": "obj", "replication": "obj"},
                 requires=REQ + ["len(%s) == 0" % LS],
                 raises=[("DSOLError", "not (%s) or %s" % (MODEL_OK, RUNNING))],
                 # model code (construct_model, an initial method) failing: CallbackError, or the DSOLError of SimEvent.execute
                 may_raise=[("CallbackError", "%s and not %s" % (MODEL_OK, RUNNING)), ("DSOLError", "%s and not %s" % (MODEL_OK, RUNNING))],
                 on_raise="any",
                 # refused: nothing changed
                 exc_ensures=["implies(old(not (%s) or %s), heap_unchanged())" % (MODEL_OK, RUNNING)],
                 ensures=POST, modifies=["heap.*"], effects="wall-clock wait for the run thread; thread start",
                 for_classes=DS, props=C06, axiom_sets=AX)
    reg.loop_invariant("Simulator.initialize", loop=0,
                       inv=POST + ["0 <= _i and _i <= len(_seq)"], modifies=["heap.*"])
    reg.loop_invariant("Simulator.initialize", loop=1, inv=[], modifies=[])
    WARM = "%s._warmup_sim_time" % RC
    reg.ghost_before_call("DEVSSimulator.initialize", "schedule_event_abs",
                          assign=[("self.g_before_warmup", LS)])
    reg.declare_fields("Simulator", g_before_warmup="seq[%s]" % ENT(reg), ghost=("g_before_warmup",))
    reg.contract("DEVSSimulator.initialize", params={"model": "obj", "replication": "obj"},
                 requires=REQ,
                 raises=[("DSOLError", "not (%s) or %s" % (MODEL_OK, RUNNING))],
                 may_raise=[("CallbackError", "%s and not %s" % (MODEL_OK, RUNNING)), ("DSOLError", "%s and not %s" % (MODEL_OK, RUNNING))],
                 on_raise="any",
                 # refused while running: nothing changes at all; refused for invalid arguments: only the event list was emptied
                 exc_ensures=["implies(old(%s), heap_unchanged())" % RUNNING,
                              "implies(old(not (%s)), heap_unchanged('EventListHeap._event_list'))" % MODEL_OK],
                 ensures=POST + [
                     # exactly one warm-up event, of maximum priority at the warm-up time, on top of what the model scheduled
                     "len(%s) == len(self.g_before_warmup) + 1" % LS,
                     "exists('w:%s', contains(%s, w) and not contains(self.g_before_warmup, w) and same(w[0], %s)"
                     " and w[1] == -SimEventInterface.MAX_PRIORITY)" % (ENT(reg), LS, WARM),
                     "forall('e:%s', implies(contains(self.g_before_warmup, e), contains(%s, e)))" % (ENT(reg), LS)],
                 modifies=["heap.*"], effects="wall-clock wait for the run thread; thread start",
                 for_classes=DS, props=C06, axiom_sets=AX)

    # ---- BOUNDED stand-ins (never counted as proved): the composition "second replication == the same replication on a
    # brand-new simulator and model" and the warm-up filter of the simulation statistics, on generated model programs
    def sweep(table):
        from pyvc.ground import run_native
        res = run_native({"function": "DEVSSimulator.initialize", "obligation": "bounded-sweep", "property": "C06"})
        return [("BOUNDED: 80 generated model programs (seeded stream, SimTally/SimCounter/SimPersistent created in construct_model) "
                 "x histories {fresh, initialised, stepped, paused, ended, paused by a failing handler}: second replication equals the "
                 "replication on a brand-new simulator and model; statistics = observations at or after warm-up; initialize from a "
                 "handler refused", not res.get("reproduced"), res.get("observed") or res.get("note"))]
    reg.ground_obligation("BOUNDED stand-in: native replication-isolation sweep", C06 + ["C11"], sweep)

    def witness(table):
        from pyvc.ground import run_native
        res = run_native({"function": "DEVSSimulator.initialize", "obligation": "witness-stale-persistent", "property": "C06"})
        return [("a model that is itself the data producer, with a SimPersistent created in construct_model, runs its second "
                 "replication like the first", not res.get("reproduced"), res.get("observed") or res.get("note"))]
    reg.ground_obligation("witness: statistics of the previous replication stay subscribed to a producer that outlives it", C06, witness)


def ENT(reg):
    from contracts.eventlist import ENT_S
    return ENT_S


_load_ri0 = load


def load(reg):      # noqa: F811
    """End of a replication requested as a command, and the warm-up notification (C04 / C11, simulator side)."""
    _load_ri0(reg)
    E = "asref(self._replication, 'Replication')._run_control._end_sim_time"
    LS = "self._eventlist._event_list"
    W = "self._Simulator__worker"
    COMMON = ["self._replication is not None", "instance(self._replication, 'Replication')", "not isnan(%s)" % E,
              "not isnan(self._simulator_time)", "%s is not None" % W]
    # end_replication(): the replication is marked ENDING (the run thread then reports ENDED and END_REPLICATION), the clock is
    # moved to the replication end if it was earlier and never backwards; the DEVS variant also discards the pending events
    reg.contract("Simulator.end_replication", params={}, requires=COMMON, raises=[],
                 ensures=["self._replication_state == ReplicationState.ENDING",
                          "implies(old(self._simulator_time) < %s, same(self._simulator_time, %s))" % (E, E),
                          "implies(not (old(self._simulator_time) < %s), same(self._simulator_time, old(self._simulator_time)))" % E],
                 modifies=["self._replication_state", "self._simulator_time"], effects="thread hand-off",
                 for_classes=["DEVSSimulator"], props=["C04"], axiom_sets=("heap", "seqref"))
    reg.contract("DEVSSimulator.end_replication", params={}, requires=COMMON + ["WF(self._eventlist)"], raises=[],
                 ensures=["self._replication_state == ReplicationState.ENDING", "len(%s) == 0" % LS, "WF(self._eventlist)",
                          "old(self._simulator_time) <= self._simulator_time and %s <= self._simulator_time" % E],
                 modifies=["self._replication_state", "self._simulator_time", LS], effects="thread hand-off",
                 props=["C04"], axiom_sets=("heap", "seqref"))


_load_ri1 = load


def load(reg):      # noqa: F811
    """The run thread is woken exactly when a command hands work to it: a ghost counter on the worker object, incremented by
    wakeup(); start / bounded runs and end_replication each wake it (otherwise the run thread would never report the new state)."""
    _load_ri1(reg)
    reg.declare_fields("SimulatorWorkerThread", g_wakeups="int", ghost=("g_wakeups",))
    wk = reg.contracts["SimulatorWorkerThread.wakeup"]
    wk.modifies = ["self.g_wakeups"]
    wk.ghost_exit = [("self.g_wakeups", "old(self.g_wakeups) + 1")]
    ck = reg.contracts["SimulatorWorkerThread.cleanup"]
    ck.modifies = ["self.g_wakeups"]
    W = "asref(self._Simulator__worker, 'SimulatorWorkerThread')"
    for q in ("Simulator.end_replication", "DEVSSimulator.end_replication"):
        c = reg.contracts[q]
        c.ensures.append("%s.g_wakeups == old(%s.g_wakeups) + 1" % (W, W))
        c.modifies.append("%s.g_wakeups" % W)
    cl = reg.contracts["Simulator.cleanup"]
    cl.modifies.append("heap.SimulatorWorkerThread.g_wakeups")
