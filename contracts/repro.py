"""Property C07 (end-to-end reproducibility): determinism *effect* obligations.

Every function on the run path must be a function of its arguments and the state it reaches:
its call closure (resolved by name over the whole class table -- conservative) must not contain a
primitive whose result varies between interpreter processes or with wall-clock time:
hash() of a str/object, id(), iteration over a set, time.*, os.urandom, module-level random.*,
default object repr used as data.  Decided syntactically over the AST of /repo's working tree
(exhaustive over the closure).  Lemmas: the event order depends on ids only through their relative
order (so creation counters inherited from earlier activity in the process do not matter); listeners
are notified in subscription order (this is the C08 loop postcondition).
"""
import ast

ROOTS = [
    "DEVSSimulator._run", "DEVSSimulator._step_impl", "DEVSSimulator.schedule_event", "DEVSSimulator.schedule_event_now",
    "DEVSSimulator.schedule_event_rel", "DEVSSimulator.schedule_event_abs", "DEVSSimulator.cancel_event",
    "DEVSSimulator.initialize", "Simulator.initialize", "Simulator.step", "Simulator.warmup", "SimulatorWorkerThread.run",
    "EventListHeap.add", "EventListHeap.pop_first", "EventListHeap.peek_first", "EventListHeap.remove", "EventListHeap.contains",
    "SimEvent.__init__", "SimEvent.execute", "SimEvent.__cmp__",
    "EventProducer.add_listener", "EventProducer.remove_listener", "EventProducer.remove_all_listeners",
    "EventProducer.fire", "EventProducer.fire_timed", "EventProducer.fire_event", "EventProducer.fire_timed_event",
    "Event.__init__", "TimedEvent.__init__",
    "MersenneTwister.next_float", "MersenneTwister.next_int", "MersenneTwister.next_bool", "MersenneTwister.set_seed",
    "MersenneTwister.reset", "MersenneTwister.save_state", "MersenneTwister.restore_state",
    "StreamUpdater.update_seeds", "SimpleStreamUpdater.update_seed", "StreamSeedUpdater.update_seed",
    "Counter.register", "Tally.register", "WeightedTally.register", "TimestampWeightedTally.register",
    "TimestampWeightedTally.end_observations", "EventBasedCounter.register", "EventBasedTally.register",
    "EventBasedWeightedTally.register", "EventBasedTimestampWeightedTally.register",
    "EventBasedCounter.notify", "EventBasedTally.notify", "EventBasedWeightedTally.notify", "EventBasedTimestampWeightedTally.notify",
    "SimCounter.notify", "SimTally.notify", "SimWeightedTally.notify", "SimPersistent.notify",
    "EventBasedTally._fire_events", "EventBasedCounter._fire_events", "EventBasedWeightedTally._fire_events",
    "EventBasedTimestampWeightedTally._fire_events", "SimTally._fire_events", "SimCounter._fire_events",
    "SimWeightedTally._fire_events", "SimPersistent._fire_events",
    "Tally.mean", "Tally.variance", "Tally.stdev", "Tally.skewness", "Tally.kurtosis", "Tally.excess_kurtosis",
    "Tally.confidence_interval", "WeightedTally.weighted_mean", "WeightedTally.weighted_variance", "WeightedTally.weighted_stdev",
]
DIST_CLASSES = ["DistBernoulli", "DistBeta", "DistBinomial", "DistConstant", "DistDiscreteUniform", "DistErlang",
                "DistExponential", "DistGamma", "DistGeometric", "DistLogNormal", "DistNegBinomial", "DistNormal",
                "DistNormalTrunc", "DistPearson5", "DistPearson6", "DistPoisson", "DistTriangular", "DistUniform", "DistWeibull"]

# primitive -> why it varies
VARYING_CALLS = {"hash": "hash() of a str/object is randomised per process", "id": "object addresses differ per process",
                 "urandom": "os.urandom", "getrandbits": "module-level random", "perf_counter": "wall clock",
                 "monotonic": "wall clock", "now": "wall clock", "today": "wall clock"}
VARYING_ATTR_CALLS = {("time", "time"): "wall clock", ("time", "time_ns"): "wall clock", ("random", "random"): "module-level unseeded random",
                      ("random", "randint"): "module-level unseeded random", ("random", "choice"): "module-level unseeded random",
                      ("os", "urandom"): "os.urandom", ("datetime", "now"): "wall clock"}
# uses that are documented / do not influence the run: (function qual, primitive) -> reason
ALLOWED = {("MersenneTwister.__init__", "time.time"): "seed=None asks for a clock-based seed explicitly; reproducible runs pass seeds",
           ("Simulator._start_impl", "time.time"): "bounded wait for the run thread; the value never reaches simulation state",
           ("Simulator._stop_impl", "time.time"): "bounded wait for the run thread; the value never reaches simulation state"}


def scan_function(f):
    """-> (set of (primitive, reason), set of callee method/function names)"""
    found, callees = set(), set()
    for n in ast.walk(f.node):
        if isinstance(n, ast.Call):
            fn = n.func
            if isinstance(fn, ast.Name):
                if fn.id in VARYING_CALLS:
                    found.add((fn.id + "()", VARYING_CALLS[fn.id]))
                callees.add(fn.id)
            elif isinstance(fn, ast.Attribute):
                if isinstance(fn.value, ast.Name) and (fn.value.id, fn.attr) in VARYING_ATTR_CALLS:
                    found.add(("%s.%s" % (fn.value.id, fn.attr), VARYING_ATTR_CALLS[(fn.value.id, fn.attr)]))
                callees.add(fn.attr)
    # set-valued expressions, followed through local names (flow-insensitive, conservative): a set is harmless as long as
    # only membership is asked; its iteration order (for / comprehension / list() / tuple() / iter() / next() / pop() / min /
    # max without ties... / unpacking / join) depends on hashes, i.e. on object addresses and PYTHONHASHSEED
    SETOPS = ("difference", "union", "intersection", "symmetric_difference", "copy")
    tainted = set()

    def is_set(e):
        if isinstance(e, (ast.Set, ast.SetComp)):
            return True
        if isinstance(e, ast.Call) and isinstance(e.func, ast.Name) and e.func.id in ("set", "frozenset"):
            return True
        if isinstance(e, ast.Name):
            return e.id in tainted
        if isinstance(e, ast.Call) and isinstance(e.func, ast.Attribute) and e.func.attr in SETOPS and is_set(e.func.value):
            return True
        if isinstance(e, ast.BinOp) and isinstance(e.op, (ast.BitOr, ast.BitAnd, ast.Sub, ast.BitXor)) and (is_set(e.left) or is_set(e.right)):
            return True
        if isinstance(e, ast.IfExp):
            return is_set(e.body) or is_set(e.orelse)
        return False
    for _ in range(3):      # fixpoint over assignments
        for n in ast.walk(f.node):
            if isinstance(n, ast.Assign) and is_set(n.value):
                for t in n.targets:
                    if isinstance(t, ast.Name):
                        tainted.add(t.id)
            elif isinstance(n, ast.AnnAssign) and n.value is not None and is_set(n.value) and isinstance(n.target, ast.Name):
                tainted.add(n.target.id)
    WHY = ("iteration over a set", "set iteration order is unspecified and hash dependent")
    for n in ast.walk(f.node):
        if isinstance(n, (ast.For, ast.comprehension)) and is_set(n.iter):
            found.add(WHY)
        elif isinstance(n, ast.Call):
            fn = n.func
            if isinstance(fn, ast.Name) and fn.id in ("list", "tuple", "iter", "next", "sorted", "enumerate", "zip", "min", "max") \
                    and any(is_set(a) for a in n.args) and not (fn.id == "sorted" and not n.keywords):
                # sorted(s) without a key is order-independent; everything else exposes the iteration order
                found.add(WHY)
            elif isinstance(fn, ast.Attribute) and fn.attr in ("pop", "join") and (is_set(fn.value) or any(is_set(a) for a in n.args)):
                found.add(WHY)
        elif isinstance(n, ast.Starred) and is_set(n.value):
            found.add(WHY)
        elif isinstance(n, ast.Assign) and isinstance(n.targets[0], (ast.Tuple, ast.List)) and is_set(n.value):
            found.add(WHY)
    return found, callees


def load(reg):
    C07 = ["C07"]

    def closure_scan(table):
        by_name = {}
        for cname, ci in table.classes.items():
            for m, f in list(ci.methods.items()) + [(k, v) for k, v in ci.setters.items()]:
                by_name.setdefault(m, []).append(f)
        for fname, f in table.functions.items():
            by_name.setdefault(fname, []).append(f)
        roots = list(ROOTS) + ["%s.draw" % c for c in DIST_CLASSES] + ["%s._set_stream" % c for c in DIST_CLASSES]
        out = []
        for root in roots:
            f0 = table.get(root)
            if f0 is None:
                if root.split(".")[0] in table.classes:
                    f0 = table.resolve(root.split(".")[0], root.split(".")[1])
                if f0 is None:
                    out.append(("effects: %s exists in the tree" % root, False, "function not found"))
                    continue
            seen, stack, bad = set(), [f0], []
            while stack:
                f = stack.pop()
                if f.qual in seen:
                    continue
                seen.add(f.qual)
                found, callees = scan_function(f)
                for prim, why in sorted(found):
                    if (f.qual, prim.rstrip("()")) in ALLOWED or (f.qual, prim) in ALLOWED:
                        continue
                    bad.append("%s uses %s (%s)" % (f.qual, prim, why))
                for c in callees:
                    if c in ("__init__",):
                        continue        # constructors are resolved by class name below
                    for g in by_name.get(c, []):
                        stack.append(g)
                    if c in table.classes:
                        g = table.resolve(c, "__init__")
                        if g is not None:
                            stack.append(g)
            out.append(("effects: call closure of %s (%d functions) uses no process-varying primitive" % (root, len(seen)),
                        not bad, "; ".join(bad[:4])))
        return out
    reg.ground_obligation("determinism effect check of the run path (syntactic, over the call closure)", C07, closure_scan)
    reg.trust("effect catalogue: hash()/id()/set iteration/time.*/os.urandom/module-level random are the process-varying primitives; "
              "everything else in the closure (float arithmetic, math.*, dict/list operations, a seeded random.Random) is a deterministic "
              "function on one platform; soundness of 'all primitives functional => composition functional' is meta-theory")
    reg.trust("C07 rests on C01 (event order is the key order), C08 (delivery in subscription order), C12 (streams are functions of the seed), "
              "C03 (pausing does not change the trace) for the functional part")

    # R1: the order of two entries depends on their ids only through the order of the ids
    reg.lemma("order_invariant_under_id_renumbering", """
def renumber(a, b, c, d):
    assume(VALID_EVENT(a) and VALID_EVENT(b) and VALID_EVENT(c) and VALID_EVENT(d))
    # c, d are a, b after an order-preserving renumbering of the ids (same times, same priorities)
    assume(same(a._absolute_time, c._absolute_time) and same(b._absolute_time, d._absolute_time))
    assume(a._priority == c._priority and b._priority == d._priority)
    assume(iff(a._id < b._id, c._id < d._id) and iff(a._id == b._id, c._id == d._id))
    assert iff(lt_e(ENTRY(a), ENTRY(b)), lt_e(ENTRY(c), ENTRY(d))), "same order after renumbering"
""", params={"a": "ref:SimEvent", "b": "ref:SimEvent", "c": "ref:SimEvent", "d": "ref:SimEvent"}, props=C07)
